"""C09 — precision and rounding mode are sticky; operands are never modified."""
from vlib import fin, zero, inf, B, ndigits
import pyspec
from . import C01, common

ID = "C09"
LEVEL = "proof"
RULE = ("random programs over 4-6 variables mixing every modelled operation with receivers of precision 0 and > 0 and all "
        "modes; after every step the receiver's precision and mode are compared with the documented rule and every other "
        "variable with its previous full state (class, sign, precision, mode, accuracy, exponent, raw words); "
        "non-trivial = program containing an operation that writes a receiver")
EXPLANATION = ("the value-level model makes every operation a function of (receiver precision, receiver mode, operand values) "
               "writing only the receiver; the correspondence run ties that model to the code over random programs and an "
               "independent table of the documented precision/mode rules judges the implementation's observations")
ASSUMPTIONS = ["no two variables share a mantissa buffer (SetBitsExp contract)"]
coq_op = common.coq_op
JUDGE_STATS = {}
WRITERS = {"Add", "Sub", "Mul", "Quo", "FMA", "Set", "Neg", "Abs", "Copy", "SetPrec", "SetMode", "SetInf", "SetInt64", "SetUint64",
           "SetInt", "SetRat", "NewDecimal", "SetMantExp", "SetBitsExp", "GobRoundTrip", "GobDecode", "Sqrt"}


def nontrivial(c):
    return any(o.split()[0] in WRITERS for o in c.get("ops", []))


def gen(rng, tier):
    n = 1 if tier == "quick" else 10
    for _ in range(350 * n):
        nv = rng.randint(4, 6)
        vs, ops = common.rand_program(rng, nv, rng.randint(6, 20 if tier == "quick" else 120))
        # make sure receivers of precision 0 occur
        for v in vs:
            if v.form != 1 and rng.randint(0, 1):
                v.prec = 0
        yield dict(family="random-program", vars=vs, ops=ops, big=len(ops) > 12)
    for _ in range(300 * n):
        # one operation, receiver precision in {0, >0} x mode x operand attributes
        x, y, u = (common.rand_fin(rng, 30, wide=False) for _ in range(3))
        z = zero(rng.randint(0, 1), prec=rng.choice([0, 0, 1, 7, 34, 60]), mode=rng.randint(0, 5))
        op = common.rand_op(rng, 4)
        yield dict(family="single-op", vars=[z, x, y, u], ops=[op])


    # read-only methods must leave their operand untouched: conversions of integer-valued operands whose mantissa
    # could be handed out or converted in place (exponent = 19 * words), then the operand is read again
    for _ in range(150 * n):
        w = rng.choice([1, 2, 2, 3, 4])
        c = int("".join("%019d" % rng.randint(B // 10 if i == 0 else 0, B - 1) for i in range(w)))
        x = fin(c, rng.choice([0, 0, 0, 1, 19, -1, -19]), neg=rng.randint(0, 1), mode=rng.randint(0, 5))
        z = zero(0, prec=rng.choice([0, 34, 60]), mode=rng.randint(0, 5))
        ops = [rng.choice(["Int 1", "Rat 1", "Int64 1", "Uint64 1", "BitsExp 1", "MantExp 1 -", "GobEncode 1", "IsInt 1"]) for _ in range(3)]
        ops += ["Int 1", "Add 0 1 1", "Cmp 0 1"]
        yield dict(family="readers-then-reuse", vars=[z, x], ops=ops)
    # receivers of precision 0: the precision they acquire is documented per setter (digit counts of big arguments
    # with high / low leading digits and lengths around the multiples of 19 and around 34)
    for _ in range(250 * n):
        z = zero(rng.randint(0, 1), prec=0, mode=rng.randint(0, 5))
        nd = rng.choice([1, 18, 19, 20, 33, 34, 35, 36, 37, 38, 39, 41, 57, 58, 76, 77, 100, 300, rng.randint(30, 120)])
        lead = rng.choice(["9", "99", "8", "877", "1", "10", "12", "5", "7"])
        body = "".join(rng.choice("0123456789") for _ in range(nd))
        v = int((lead + body)[:nd]) or 9
        if rng.randint(0, 3) == 0:
            v = 10 ** (nd - 1) * rng.choice([1, 9]) + rng.choice([0, 0, 1])
        v *= rng.choice([1, -1])
        k = rng.randint(0, 3)
        if k == 0:
            op = "SetInt 0 %d" % v
        elif k == 1:
            op = "SetRat 0 %d 1" % v
        elif k == 2:
            from fractions import Fraction
            den = rng.choice([3, 7, 10 ** 40 + 1, 9 * 10 ** 50 + 7, common.rand_coeff(rng, 60)])
            f = Fraction(v, den)
            op = "SetRat 0 %d %d" % (f.numerator, f.denominator)
        else:
            x = common.rand_fin(rng, rng.choice([1, 34, 35, 60, 90]), wide=False)
            yield dict(family="prec0-setters", vars=[z, x], ops=[rng.choice(["Set 0 1", "Neg 0 1", "Abs 0 1", "Add 0 1 1", "Mul 0 1 1", "SetMantExp 0 1 3"])])
            continue
        yield dict(family="prec0-setters", vars=[z], ops=[op])


def digits(n):
    return len(str(abs(n))) if n else 0


def build(log):
    from . import fcommon, textcommon
    ok, out = fcommon.build(log)
    if not ok:
        return ok, out
    return textcommon.build(log)


def text_side(fails):
    """Text / Append / Format / String are read-only: the operand's full raw state (mantissa words included) must be
    the same after the call (text driver, harness/tdriver)."""
    import os, random
    import vlib
    from . import C13
    rng = random.Random(int(os.environ.get("VERIF_SEED", "20261001")) + 13)
    tier = os.environ.get("VERIF_TIER", "quick")
    tcs = [c for c in C13.gen(rng, "quick") if c["family"] in ("text", "f-leading-digit", "f-below-position", "format")][:1500 if tier == "quick" else 3000]
    from . import C12
    pcs = [c for c in C12.gen(rng, "quick") if c["family"] in ("binary-representable", "rounding-directed", "exponent-boundary", "scan", "inf")][:1200]
    for c in pcs:
        if rng.random() < 0.5 and c["vars"]:
            c["vars"][0].prec = 0 if c["vars"][0].form != 1 else c["vars"][0].prec
    npc = len(tcs)
    tcs += pcs
    # operands with low zero words (values shorter than their precision)
    for c in tcs:
        for v in c["vars"]:
            if v.form == 1 and rng.random() < 0.5:
                k = rng.randint(1, 3)
                v.words = [0] * k + list(v.words)
                v.prec = max(v.prec, 19 * len(v.words) - 18)
    for i, c in enumerate(tcs):
        c["pid"] = "t%d" % i
        c["line"] = " ; ".join([v.item() for v in c["vars"]] + ["O " + o for o in c["ops"]])
    text = "\n".join("%s ; %s" % (c["pid"], c["line"]) for c in tcs) + "\n"
    rc, out, dt = vlib.run_side(os.path.join(vlib.BUILD, "tdriver"), text, timeout=600)
    JUDGE_STATS["text_driver_cases"] = len(tcs)
    JUDGE_STATS["text_operand_states_compared"] = 0
    if rc != 0:
        fails.append((tcs[0], "text driver exited with status %d" % rc, dict(implementation=out[-1500:])))
        return
    byid = {c["pid"]: c for c in tcs}
    bad = set()
    for line in out.splitlines():
        try:
            key, opn, outcome, res, vs = vlib.parse_obs(line)
        except Exception:
            continue
        c = byid.get(key[0])
        if c is None or key[0] in bad:
            continue
        if opn in ("Parse", "SetString") and key[1] == 0 and outcome == "ok" and len(res) >= 2 and res[1] == "0" and vs:
            z0 = C01.dv_obs(c["vars"][0])
            z1 = vs[0]
            JUDGE_STATS["text_attr_rules_checked"] = JUDGE_STATS.get("text_attr_rules_checked", 0) + 1
            wantp = int(z0[2]) if int(z0[2]) else 34
            if int(z1[2]) != wantp or z1[3] != z0[3]:
                bad.add(key[0])
                fails.append((c, "attribute rule violated (%s; text driver build/tdriver): receiver precision/mode %s/%s, documented %d/%s" % (opn, z1[2], z1[3], wantp, z0[3]),
                              dict(implementation=line[:1500], step=key[1], driver="tdriver")))
            continue
        if opn in ("Parse", "Scan", "SetString", "UnmarshalText", "RoundTrip", "BigParse", "ParseDecimal", "Fscan", "JSON"):
            continue
        prev = [C01.dv_obs(v) for v in c["vars"]]
        if len(vs) != len(prev):
            continue
        for k, (a, b) in enumerate(zip(prev, vs)):
            JUDGE_STATS["text_operand_states_compared"] += 1
            if a != b and not (a[0] != "1" and a[:5] == b[:5]):
                bad.add(key[0])
                fails.append((c, "read-only method %s modified its operand %d: %s -> %s (text driver build/tdriver)" % (opn, k, a[:8], b[:8]),
                              dict(implementation=line[:1500], step=key[1], driver="tdriver")))
                break


def float_side(fails):
    import os, random, itertools
    import vlib
    from . import C05, C15
    rng = random.Random(int(os.environ.get("VERIF_SEED", "20261001")) + 9)
    tier = os.environ.get("VERIF_TIER", "quick")
    fc = list(itertools.islice(C05.gen(rng, "quick"), 900 if tier == "quick" else 3000))
    fc += [c for c in C15.gen(rng, "quick") if c["family"].startswith(("f64", "setfloat"))][:600]
    for i, c in enumerate(fc):
        c["pid"] = "f%d" % i
        c["line"] = " ; ".join([v.item() for v in c["vars"]] + ["O " + o for o in c["ops"]])
    text = "\n".join("%s ; %s" % (c["pid"], c["line"]) for c in fc) + "\n"
    rc, out, dt = vlib.run_side(os.path.join(vlib.BUILD, "fdriver"), text, timeout=600)
    JUDGE_STATS["float_driver_cases"] = len(fc)
    JUDGE_STATS["float_attr_rules_checked"] = 0
    if rc != 0:
        fails.append((fc[0], "float driver exited with status %d" % rc, dict(implementation=out[-1500:])))
        return
    byid = {c["pid"]: c for c in fc}
    state, bad = {}, set()
    for line in out.splitlines():
        try:
            key, opn, outcome, res, vs = vlib.parse_obs(line)
        except Exception:
            continue
        c = byid.get(key[0])
        if c is None or key[0] in bad:
            continue
        prev = state.get(key[0]) or [C01.dv_obs(v) for v in c["vars"]]
        t = c["ops"][key[1]].split() if key[1] < len(c["ops"]) else [opn]
        msg = None
        if outcome == "ok" and opn in ("Sqrt", "SetFloat64", "SetFloat") and len(vs) == len(prev):
            zi = int(t[1])
            z0, z1 = prev[zi], vs[zi]
            JUDGE_STATS["float_attr_rules_checked"] += 1
            if z1[3] != z0[3]:
                msg = "receiver mode %s, want %s" % (z1[3], z0[3])
            elif int(z0[2]) != 0 and z1[2] != z0[2]:
                msg = "receiver precision %s, want %s" % (z1[2], z0[2])
            elif opn == "Sqrt" and int(z0[2]) == 0 and z1[2] != prev[int(t[2])][2]:
                msg = "receiver precision %s, want the operand's %s" % (z1[2], prev[int(t[2])][2])
            for k, (a, b) in enumerate(zip(prev, vs)):
                if k != zi and a != b and not (a[0] != "1" and a[:5] == b[:5]):
                    msg = "variable %d, which is not the receiver, changed" % k
        if msg:
            bad.add(key[0])
            fails.append((c, "attribute rule violated at step %d (%s; float driver build/fdriver): %s" % (key[1], opn, msg),
                          dict(implementation=line[:1500], step=key[1], driver="fdriver")))
        if len(vs) == len(prev):
            state[key[0]] = vs


def judge(cases, g, m):
    fails = []
    JUDGE_STATS["receiver_rules_checked"] = 0
    if not any(c.get("family") == "replay" for c in cases):
        float_side(fails)
        text_side(fails)
    JUDGE_STATS["operand_states_compared"] = 0
    for c in cases:
        if "vars" not in c:
            continue
        prev = [C01.dv_obs(v) for v in c["vars"]]
        for i, o in enumerate(c["ops"]):
            ob = g.get((c["pid"], i))
            if ob is None:
                break
            (key, opn, outcome, res, vs), line = ob
            if outcome == "crash":
                break
            t = o.split()
            msg = None
            written = set()
            if opn in WRITERS:
                written.add(int(t[1]))
            if opn == "MantExp" and t[2] != "-":
                written.add(int(t[2]))
            for k, (a, b) in enumerate(zip(prev, vs)):
                if k in written:
                    continue
                JUDGE_STATS["operand_states_compared"] += 1
                if a != b and not (a[0] != "1" and a[:5] == b[:5]):
                    msg = "variable %d, which is not the receiver, changed: %s -> %s" % (k, a[:7], b[:7])
            if msg is None and outcome == "ok":
                for k in written:
                    r = rule(opn, t, prev, k)
                    if r is None:
                        continue
                    JUDGE_STATS["receiver_rules_checked"] += 1
                    wp, wm = r
                    if wp is not None and int(vs[k][2]) != wp:
                        msg = "receiver precision %s, documented value %d" % (vs[k][2], wp)
                    if wm is not None and int(vs[k][3]) != wm:
                        msg = "receiver mode %s, want %d" % (vs[k][3], wm)
            elif msg is None and outcome == "nan":
                for k in written:
                    if vs[k][3] != prev[k][3]:
                        msg = "mode changed by an operation that raised ErrNaN"
            if msg:
                fails.append((c, "attribute rule violated at step %d (%s): %s" % (i, o[:60], msg), dict(implementation=line[:1500], step=i)))
                break
            prev = vs
    return fails


def rule(opn, t, prev, k):
    """documented (precision, mode) of variable k after the operation; None = not specified here"""
    z0 = prev[k]
    zp, zm = int(z0[2]), int(z0[3])
    P = lambda i: int(prev[int(t[i])][2])
    M = lambda i: int(prev[int(t[i])][3])
    if opn in ("Add", "Sub", "Mul", "Quo"):
        return (zp if zp else max(P(2), P(3)), zm)
    if opn == "FMA":
        return (zp if zp else max(P(2), P(3), P(4)), zm)
    if opn in ("Set", "Neg", "Abs", "Sqrt"):
        return (zp if zp else P(2), zm)
    if opn == "Copy":
        return (P(2), M(2))
    if opn == "SetPrec":
        return (min(int(t[2]), 2**32 - 1), zm)
    if opn == "SetMode":
        return (zp, int(t[2]))
    if opn == "SetInf":
        return (zp, zm)
    if opn in ("SetInt64", "SetUint64"):
        return (zp if zp else 34, zm)
    if opn == "SetInt":
        return (zp if zp else max(34, digits(int(t[2]))), zm)
    if opn == "SetRat":
        num, den = int(t[2]), int(t[3])
        if zp:
            return (zp, zm)
        return (max(34, digits(num)) if den == 1 else max(34, digits(num), digits(den)), zm)
    if opn == "NewDecimal":
        return (34, 0)
    if opn == "SetMantExp":
        return (P(2), M(2))
    if opn == "MantExp":
        return (P(1), M(1))
    if opn == "SetBitsExp":
        if zp:
            return (zp, zm)
        n = int(t[3])
        ws = [int(w) for w in t[4:4 + n]]
        while ws and ws[-1] == 0:
            ws.pop()
        return ((19 * len(ws)) if ws else 0, zm)
    if opn == "GobRoundTrip":
        return ((zp, zm) if zp else (P(2), M(2)))
    return None
