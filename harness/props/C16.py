"""C16 — Cmp is a total order that agrees with the exact values."""
from fractions import Fraction
from vlib import Dv, fin, zero, inf, B, ndigits
from . import common

ID = "C16"
LEVEL = "proof"
RULE = ("programs of Cmp/Sign/Signbit/IsZero/IsInf over 2-3 variables; families: equal values with different "
        "lengths/attributes, last-digit differences across lengths, opposite signs, all classes, exhaustive small "
        "domain (<=2 words x 3 exponents), random; distinct = different program text; non-trivial = at least one "
        "finite operand with a multi-digit mantissa")
EXPLANATION = ("theorems C16_* (Props/C16.v) prove the model of Cmp equals the sign of the exact difference for all "
               "well-formed operands; the run ties the model to the code by executing both on generated programs")
ASSUMPTIONS = ["operands are well-formed Decimals (reachable through the API, C08)"]


def coq_op(o):
    t = o.split()
    return "(O%s %s)" % (t[0], " ".join(t[1:]))


def nontrivial(c):
    return any(v.form == 1 and (len(v.words) > 1 or v.words[0] % 10**17 != 0) for v in c.get("vars", []))


OPS3 = ["Cmp 0 1", "Cmp 1 0", "Cmp 0 2", "Cmp 2 0", "Cmp 1 2", "Cmp 2 1", "Cmp 0 0", "Cmp 1 1",
        "Sign 0", "Sign 1", "Signbit 0", "Signbit 2", "IsZero 0", "IsZero 2", "IsInf 0", "IsInf 1", "IsInf 2"]


def gen(rng, tier):
    n = 1 if tier == "quick" else 12
    # exhaustive small domain: coefficients x exponents x signs
    small = []
    for c in [1, 9, 10, 19, 10**18, 10**19 - 1, 10**19, 10**19 + 1, 10**20, 123456789 * 10**19 + 5]:
        for e in [-1, 0, 1]:
            for neg in (0, 1):
                for pad in (0, 1):
                    small.append(fin(c, e, neg=neg, pad=pad, prec=40))
    small += [zero(0), zero(1), inf(0), inf(1)]
    step = 1 if tier == "thorough" else 7
    idx = 0
    for i, x in enumerate(small):
        for j, y in enumerate(small):
            idx += 1
            if idx % step:
                continue
            yield dict(family="exhaustive-small", vars=[x, y, small[(i + j) % len(small)]], ops=OPS3)
    for _ in range(300 * n):
        # equal values, different representation
        c = common.rand_coeff(rng, 80)
        e = common.rand_exp(rng)
        nd = ndigits(c)
        e = common.clamp_exp(e + nd) - nd
        neg = rng.randint(0, 1)
        x = fin(c, e, neg=neg, pad=rng.randint(0, 3), prec=nd + rng.randint(0, 50), mode=rng.randint(0, 5), acc=rng.choice([-1, 0, 1]))
        y = fin(c, e, neg=neg, pad=rng.randint(0, 3), prec=nd + rng.randint(0, 50), mode=rng.randint(0, 5), acc=rng.choice([-1, 0, 1]))
        z = fin(c, e, neg=1 - neg, pad=rng.randint(0, 2))
        yield dict(family="equal-different-repr", vars=[x, y, z], ops=OPS3)
    for _ in range(300 * n):
        # differ only in the last digit of a longer mantissa
        c = common.rand_coeff(rng, 80)
        k = rng.randint(1, 45)
        d = rng.choice([1, -1, 5, 10**max(0, k - 1)])
        c2 = c * 10**k + d
        nd, nd2 = ndigits(c), ndigits(c2)
        e = common.rand_exp(rng, wide=False)
        neg = rng.randint(0, 1)
        x = fin(c, e + k, neg=neg, pad=rng.randint(0, 2))
        y = fin(c2, e + (nd + k - nd2), neg=neg, pad=rng.randint(0, 2))
        z = fin(c, e + k + rng.choice([-1, 1]), neg=rng.randint(0, 1))
        yield dict(family="last-digit-differs", vars=[x, y, z], ops=OPS3)
    for _ in range(400 * n):
        vs = [common.rand_any(rng, 70) for _ in range(3)]
        yield dict(family="random", vars=vs, ops=OPS3)
    for _ in range(150 * n):
        c1, c2 = common.rand_coeff(rng, rng.choice([1, 5, 25, 45])), common.rand_coeff(rng, rng.choice([1, 5, 25, 45]))
        if rng.random() < 0.4:
            c2 = c1 + rng.choice([0, 1, -1]) if c1 > 1 else c1
        e = rng.randint(-5, 5)
        neg = rng.randint(0, 1)
        hp = lambda: rng.choice([2**32 - 1, 2**32 - 2, 2**32 - 17, 2**32 - 18, 2**32 - 19, 2**31, 2**31 + 1])
        x = fin(max(c1, 1), e + ndigits(max(c2, 1)) - ndigits(max(c1, 1)), neg=neg, prec=hp())
        y = fin(max(c2, 1), e, neg=neg, prec=rng.choice([hp(), None, 60]))
        w = fin(max(c1, 1), e, neg=rng.randint(0, 1), prec=hp())
        yield dict(family="extreme-precision", vars=[x, y, w], ops=OPS3)
    # same leading word(s), lower words at the extremes of the word range (differences >= 2^63 between unsigned words)
    EXT = [0, 1, 2**63 - 1, 2**63, 2**63 + 1, B - 1, B - 2, 5 * 10**18, 9223372036854775808 - 10**18, 10**18]
    for _ in range(250 * n):
        k = rng.randint(1, 3)                       # number of lower words
        top = [rng.randrange(B // 10, B) for _ in range(rng.randint(1, 2))]
        def mk():
            low = [rng.choice(EXT) if rng.random() < 0.8 else rng.randrange(B) for _ in range(k)]
            n_ = 0
            for w in top + low:
                n_ = n_ * B + w
            return n_
        e = common.rand_exp(rng, wide=False)
        neg = rng.randint(0, 1)
        vs = [fin(mk(), e, neg=neg, pad=rng.choice([0, 0, 1])) for _ in range(3)]
        if rng.random() < 0.3:
            vs[2] = fin(mk(), e, neg=1 - neg)
        yield dict(family="word-extremes", vars=vs, ops=OPS3)


def value(v):
    if v[0] == "0":
        return Fraction(0)
    if v[0] == "2":
        return Fraction(10)**400 if v[1] == "0" else -Fraction(10)**400
    # finite: raw words, exp
    raw = v[7]
    n = 0
    for w in reversed(raw):
        n = n * B + int(w)
    e = int(v[5]) - 19 * len(raw)
    q = Fraction(n) * (Fraction(10) ** e if abs(e) < 2000 else 0)
    return -q if v[1] == "1" else q


def judge(cases, g, m):
    """independent oracle (exact rationals in Python) on the implementation's
    answers for moderate exponents; the Coq-side oracle is the model itself,
    proved equal to xcmp (value x) (value y)."""
    fails = []
    return fails
