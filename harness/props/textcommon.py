"""Shared code of the text-codec properties C11 (round trip), C12 (parsing), C13 (formatting):
build of tdriver/trunner, value and literal generators, the reference grammar, the reference
formatter (an independent Python statement of "rounded once + strconv/fmt layout"), the
in-kernel vm_compute sample."""
import os, re, struct, sys
from fractions import Fraction
import vlib
from vlib import ROOT, BUILD, COQ, REPO, GOENV, COQW, B, Dv, sh, file_hash, ndigits

sys.set_int_max_str_digits(0)

MINEXP, MAXEXP = -2**31, 2**31 - 1
FMTS = "eEfgGpb"


# ----------------------------------------------------------------------------
# build: tdriver (Go) and trunner (extracted OCaml)

def build(log):
    d = os.path.join(ROOT, "harness", "tdriver")
    if os.path.exists(os.path.join(REPO, "go.sum")):
        sh(["cp", os.path.join(REPO, "go.sum"), d])
    rc, out, dt = sh(["go", "build", "-tags", "verif", "-o", os.path.join(BUILD, "tdriver"), "."], cwd=d, env=GOENV, timeout=600)
    log.append(("go-build[tdriver]", rc, dt, out[-3000:] if rc else ""))
    if rc:
        return False, out
    ex = os.path.join(BUILD, "extractt")
    os.makedirs(ex, exist_ok=True)
    rc, out, dt = sh(["coqc", "-Q", os.path.join(COQ, "theories"), "Dec", "-w", COQW, "-o", "./ExtractT.vo",
                      os.path.join(COQ, "theories", "Extract", "ExtractT.v")], cwd=ex, timeout=600)
    log.append(("extract-t", rc, dt, out[-2000:] if rc else ""))
    if rc:
        return False, "extraction of the L4 models failed:\n" + out
    main_src = os.path.join(ROOT, "harness", "ocaml", "tmain.ml")
    h = file_hash([os.path.join(ex, "tmodel.ml"), main_src])
    stamp = os.path.join(BUILD, "trunner.hash")
    runner = os.path.join(BUILD, "trunner")
    if os.path.exists(runner) and os.path.exists(stamp) and open(stamp).read() == h:
        return True, ""
    sh(["cp", main_src, os.path.join(ex, "tmain.ml")])
    rc, out, dt = sh("ocamlfind ocamlopt -package zarith -linkpkg -w -a -inline 100 tmodel.mli tmodel.ml tmain.ml -o ../trunner",
                     cwd=ex, timeout=600)
    log.append(("ocaml-t", rc, dt, out[-2000:] if rc else ""))
    if rc:
        return False, "trunner build failed:\n" + out
    open(stamp, "w").write(h)
    return True, ""


# ----------------------------------------------------------------------------
# strings

def hx(s):
    if isinstance(s, str):
        s = s.encode("latin1")
    return s.hex() if s else "-"


def unhx(tok):
    if tok.startswith("x:"):
        tok = tok[2:]
    return bytes.fromhex(tok).decode("latin1") if tok != "-" else ""


def ref_token(line):
    """the #ref:<hex> comment token of a raw driver line (None if absent)"""
    m = re.search(r" #ref:([0-9a-f]*)", line.split(" | ")[0])
    return bytes.fromhex(m.group(1)).decode("latin1") if m else None


# ----------------------------------------------------------------------------
# Decimal values

def val_words(ws):
    n = 0
    for w in reversed(ws):
        n = n * B + w
    return n


def rand_word(rng, kind=None):
    k = rng.randint(0, 9) if kind is None else kind
    if k == 0:
        return 0
    if k == 1:
        return B - 1
    if k == 2:
        return rng.choice([1, 10**18, 5 * 10**18, 10**9, 10**18 + 1, B - 10**9])
    if k == 3:      # trailing zeros inside the word
        t = rng.randint(1, 18)
        return (rng.randrange(B) // 10**t) * 10**t
    if k == 4:      # leading zeros inside the word
        return rng.randrange(10 ** rng.randint(1, 18))
    return rng.randrange(B)


def rand_mant(rng, n):
    """n little-endian words, normalised top word, every zero-word shape"""
    style = rng.randint(0, 7)
    if style == 0:
        ws = [rng.randrange(B) for _ in range(n)]
    elif style == 1:   # low zero words
        k = rng.randint(0, n - 1)
        ws = [0] * k + [rand_word(rng) for _ in range(n - k)]
    elif style == 2:   # interior zero words
        ws = [rand_word(rng, rng.choice([0, 0, 5, 1])) for _ in range(n)]
    elif style == 3:   # only the top word
        ws = [0] * (n - 1) + [0]
    elif style == 4:
        ws = [rng.choice([0, B - 1]) for _ in range(n)]
    else:
        ws = [rand_word(rng) for _ in range(n)]
    top = ws[-1]
    if top < B // 10:
        top = rng.choice([10**18, B - 1, 10**18 + rng.randrange(9 * 10**18), int(str(rng.randint(1, 9)) + "0" * 18),
                          (10**18 + rng.randrange(9 * 10**18)) // 10**rng.randint(0, 18) * 10**rng.randint(0, 18) or 10**18])
        if top < B // 10:
            top = top + 10**18
        if top >= B:
            top = B - 1
    ws[-1] = top
    # the lowest word must not make the whole mantissa zero (it cannot: top != 0)
    return ws


def minprec_words(ws):
    n = val_words(ws)
    s = str(n)
    return 19 * len(ws) - (len(s) - len(s.rstrip("0")))


def rand_nwords(rng, tier):
    k = rng.randint(0, 99)
    if k < 55:
        return rng.randint(1, 3)
    if k < 85:
        return rng.randint(1, 12)
    if k < 97:
        return rng.randint(10, 60)
    return rng.randint(60, 400 if tier != "quick" or k == 99 else 120)


def mk_fin(rng, ws, exp, neg=None, prec=None, mode=None):
    mp = minprec_words(ws)
    if prec is None:
        prec = rng.choice([mp, mp, mp + 1, mp + rng.randint(0, 40), 19 * len(ws), max(mp, 34)])
    prec = max(prec, mp, 1)
    return Dv(1, rng.randint(0, 1) if neg is None else neg, exp, prec, rng.randint(0, 5) if mode is None else mode,
              rng.choice([-1, 0, 1]), ws, rng.choice([0, 0, 1, 4]), rng.choice([0, B - 1, 2**64 - 1]))


def coeff_fin(coeff, e10, neg=0, prec=None, mode=0, pad=0):
    """finite value coeff*10^e10 as a Dv"""
    return vlib.fin(coeff, e10, prec=prec, neg=neg, mode=mode, pad=pad)


def rand_exp_full(rng):
    k = rng.randint(0, 11)
    if k <= 3:
        return rng.randint(-30, 30)
    if k <= 5:
        return rng.randint(-400, 400)
    if k == 6:
        return rng.choice([-5, -4, -3, -2, -1, 0, 1, 2, 5, 6, 7, 20, 21, 22, 23])
    if k == 7:
        return rng.choice([MAXEXP, MINEXP, MAXEXP - 1, MINEXP + 1, MAXEXP - 40, MINEXP + 40, 10, 100, 1000, -9, -99, -999, 11, 101, 1001])
    if k == 8:
        return rng.randint(-5000, 5000)
    return rng.randint(MINEXP, MAXEXP)


def dv_exact(d):
    """(kind, neg, coeff, e10): value = coeff*10^e10, coeff without trailing zeros"""
    if d.form == 0:
        return ("zero", d.neg, 0, 0)
    if d.form == 2:
        return ("inf", d.neg, 0, 0)
    n = val_words(d.words)
    e = d.exp - 19 * len(d.words)
    while n % 10 == 0:
        n //= 10
        e += 1
    return ("fin", d.neg, n, e)


def obs_exact(v):
    """same from a parsed observation tuple"""
    form, neg = v[0], v[1] == "1"
    if form == "0":
        return ("zero", neg, 0, 0)
    if form == "2":
        return ("inf", neg, 0, 0)
    raw = [int(w) for w in v[7]]
    n = val_words(raw)
    e = int(v[5]) - 19 * len(raw)
    while n % 10 == 0 and n:
        n //= 10
        e += 1
    return ("fin", neg, n, e)


# ----------------------------------------------------------------------------
# reference formatter: "rounded once under the mode at the requested position" + strconv layout

def round_quot(n, d, mode, neg, last_odd=None):
    """round the positive rational n/d to an integer under `mode` for a value of sign neg"""
    q, r = divmod(n, d)
    if r == 0:
        return q
    m = pyspec_mode(mode)
    if m == "ToZero":
        inc = False
    elif m == "AwayFromZero":
        inc = True
    elif m == "ToNegativeInf":
        inc = bool(neg)
    elif m == "ToPositiveInf":
        inc = not neg
    elif m == "ToNearestEven":
        inc = 2 * r > d or (2 * r == d and q % 2 == 1)
    else:
        inc = 2 * r >= d
    return q + 1 if inc else q


def pyspec_mode(m):
    return ["ToNearestEven", "ToNearestAway", "ToZero", "AwayFromZero", "ToNegativeInf", "ToPositiveInf"][m]


def round_sig(coeff, e10, nsig, mode, neg):
    """coeff*10^e10 rounded to nsig significant digits -> (digit string without trailing zeros, dp)
    with value = 0.digits * 10^dp"""
    nd = ndigits(coeff)
    if nd > nsig:
        drop = nd - nsig
        q = round_quot(coeff, 10 ** drop, mode, neg)
        coeff, e10 = q, e10 + drop
    s = str(coeff)
    dp = len(s) + e10
    return s.rstrip("0"), dp


def round_pos(coeff, e10, pos, mode, neg):
    """coeff*10^e10 rounded at the 10^pos position -> (digits, dp); ("", 0) when the result is zero"""
    if e10 >= pos:
        n = coeff * 10 ** (e10 - pos)
    else:
        n = round_quot(coeff, 10 ** (pos - e10), mode, neg)
    if n == 0:
        return "", 0
    s = str(n)
    return s.rstrip("0"), len(s) + pos


def lay_e(digs, dp, prec, fch):
    out = digs[0] if digs else "0"
    if prec > 0:
        out += "." + digs[1:prec + 1].ljust(prec, "0")
    e = dp - 1 if digs else 0
    out += fch + ("-" if e < 0 else "+")
    e = abs(e)
    return out + ("0" if e < 10 else "") + str(e)


def lay_f(digs, dp, prec):
    if dp > 0:
        out = digs[:dp].ljust(dp, "0")
    else:
        out = "0"
    if prec > 0:
        out += "."
        frac = ""
        if dp < 0:
            frac = "0" * min(prec, -dp)
        frac += digs[max(dp, 0):max(dp, 0) + prec - len(frac)]
        out += frac.ljust(prec, "0")
    return out


def spec_text(ex, fmt, prec, mode, xprec=0):
    """reference for Text: ex = (kind, neg, coeff, e10)"""
    kind, neg, coeff, e10 = ex
    sign = "-" if neg else ""
    if kind == "inf":
        return ("-" if neg else "+") + "Inf"
    if fmt == "b":
        if kind == "zero":
            return sign + "0"
        s = str(coeff)
        dp = len(s) + e10
        e = dp - xprec
        return sign + s.ljust(xprec, "0")[:max(xprec, 0)] + "e" + ("+" if e >= 0 else "") + str(e)
    if fmt == "p":
        if kind == "zero":
            return sign + "0"
        s = str(coeff)
        dp = len(s) + e10
        return sign + "0." + s + "e" + ("+" if dp >= 0 else "") + str(dp)
    if fmt not in "eEfgG":
        return "%" + fmt
    shortest = prec < 0
    if kind == "zero":
        digs, dp = "", 0
        if shortest:
            prec = {"e": -1, "E": -1, "f": 0, "g": 0, "G": 0}[fmt]
        elif fmt in "gG" and prec == 0:
            prec = 1
    elif shortest:
        digs, dp = str(coeff), len(str(coeff)) + e10
        prec = {"e": len(digs) - 1, "E": len(digs) - 1, "f": max(len(digs) - dp, 0), "g": len(digs), "G": len(digs)}[fmt]
    elif fmt in "eE":
        digs, dp = round_sig(coeff, e10, prec + 1, mode, neg)
    elif fmt == "f":
        digs, dp = round_pos(coeff, e10, -prec, mode, neg)
    else:
        if prec == 0:
            prec = 1
        digs, dp = round_sig(coeff, e10, prec, mode, neg)
    if fmt in "eE":
        return sign + lay_e(digs, dp, prec, fmt)
    if fmt == "f":
        return sign + lay_f(digs, dp, prec)
    nd = len(digs)
    eprec = prec
    if eprec > nd and nd >= dp:
        eprec = nd
    if shortest:
        eprec = 6
    e = dp - 1
    if e < -4 or e >= eprec:
        if prec > nd:
            prec = nd
        return sign + lay_e(digs, dp, prec - 1, "e" if fmt == "g" else "E")
    if prec > dp:
        prec = nd
    return sign + lay_f(digs, dp, max(prec - dp, 0))


def spec_format(ex, flags, width, prec, verb, mode, xprec=0):
    """reference for Format on the verbs fmt defines for floating-point numbers (e E f F g G v) and the
    decimal-specific b p s: sign, padding and flags as fmt does for float64"""
    plus, space, zero, minus = bool(flags & 1), bool(flags & 2), bool(flags & 4), bool(flags & 8)
    if verb in "eEfbp":
        f, p = verb, (prec if prec >= 0 else 6)
    elif verb == "F":
        f, p = "f", (prec if prec >= 0 else 6)
    elif verb == "s":
        f, p = "g", (prec if prec >= 0 else 10)
    elif verb in "vgG":
        f, p = ("G" if verb == "G" else "g"), prec
    else:
        return None
    body = spec_text(ex, f, p, mode, xprec)
    isinf = ex[0] == "inf"
    if body[0] == "-":
        sign, body = "-", body[1:]
    elif body[0] == "+":
        sign, body = "+", body[1:]
        if space and not plus:
            sign = " "
    elif plus:
        sign = "+"
    elif space:
        sign = " "
    else:
        sign = ""
    pad = max(width - len(sign) - len(body), 0) if width >= 0 else 0
    if zero and not minus and not isinf:
        return sign + "0" * pad + body
    if minus:
        return sign + body + " " * pad
    return " " * pad + sign + body


# ----------------------------------------------------------------------------
# reference grammar (the EBNF of the Parse doc comment) and literal values

def _digits(cls, sep):
    return "[%s](?:%s[%s])*" % (cls, "_?" if sep else "", cls)


def _grammar_re(b, sep, prefixed):
    cls = {2: "01", 8: "0-7", 10: "0-9", 16: "0-9a-fA-F"}[b]
    D = _digits(cls, sep)
    us = "_?" if (sep and prefixed) else ""
    mant = "(?:%s%s\\.(?:%s)?|%s%s|\\.%s)" % (us, D, D, us, D, D)
    ech = "pP" if b == 16 else "eEpP"
    exp = "(?:[%s][+-]?%s)?" % (ech, _digits("0-9", sep))
    return mant + exp


_GR = {}


def grammar(s, base):
    """(accepted, detected base) by the EBNF alone (no range checks); Inf spellings give base 0"""
    if s in ("Inf", "inf", "+Inf", "-Inf", "+inf", "-inf"):
        return True, 0
    body = s[1:] if s[:1] in ("+", "-") else s
    if base == 0:
        alts = [(10, "", False)]
        for pf, b in (("bB", 2), ("oO", 8), ("xX", 16)):
            alts.append((b, "0[%s]" % pf, True))
        # "0" followed by a decimal pmantissa is covered by the plain mantissa, except "0_"-forms,
        # which the digits rule (digit { [_] digit }) also covers
        for b, pf, prefixed in alts:
            key = (b, True, prefixed)
            if key not in _GR:
                _GR[key] = re.compile("^" + pf + _grammar_re(b, True, prefixed) + "$")
            if _GR[key].match(body):
                return True, b
        return False, None
    key = (base, False, False)
    if key not in _GR:
        _GR[key] = re.compile("^" + _grammar_re(base, False, False) + "$")
    return (True, base) if _GR[key].match(body) else (False, None)


def literal_value(s, base, b):
    """exact value of a string accepted by `grammar(s, base)` with detected base b (not Inf):
    (neg, M, frac_digits, ebase, e) meaning (-1)^neg * M * b^-frac_digits * ebase^e"""
    neg = s[:1] == "-"
    body = s[1:] if s[:1] in ("+", "-") else s
    body = body.replace("_", "")
    if base == 0 and b != 10:
        body = body[2:]          # the prefix that selected the base
    if b == 16:
        m = re.match(r"^([0-9a-fA-F]*)(?:\.([0-9a-fA-F]*))?(?:([pP])([+-]?[0-9]+))?$", body)
    else:
        m = re.match(r"^([0-9]*)(?:\.([0-9]*))?(?:([eEpP])([+-]?[0-9]+))?$", body)
    ip, fp, ech, ev = m.group(1), m.group(2) or "", m.group(3), m.group(4)
    M = int(ip + fp, b) if (ip + fp) else 0
    ebase, e = 10, 0
    if ech:
        ebase = 2 if ech in "pP" else 10
        e = int(ev)
    return neg, M, len(fp), ebase, e


# ----------------------------------------------------------------------------
# literal generators

def rand_digits(rng, n, cls="0123456789"):
    k = rng.randint(0, 5)
    if k == 0:
        return "".join(rng.choice(cls[0] + cls[-1]) for _ in range(n))
    if k == 1:
        return cls[-1] * n
    if k == 2 and n > 1:
        j = rng.randint(0, n - 1)
        return cls[0] * j + "".join(rng.choice(cls) for _ in range(n - j))
    if k == 3 and n > 1:
        j = rng.randint(0, n - 1)
        return "".join(rng.choice(cls) for _ in range(n - j)) + cls[0] * j
    return "".join(rng.choice(cls) for _ in range(n))


def with_seps(rng, s):
    """insert valid separators between successive digits"""
    out = s[:1]
    for c in s[1:]:
        if rng.random() < 0.15:
            out += "_"
        out += c
    return out


def rand_len(rng, tier):
    k = rng.randint(0, 99)
    if k < 50:
        return rng.randint(1, 8)
    if k < 80:
        return rng.randint(1, 45)
    if k < 95:
        return rng.randint(30, 200)
    return rng.randint(200, 5000 if (tier != "quick" or k >= 99) else 1200)


def rand_exponent(rng, ndig_int=0):
    """exponent text value; ndig_int shifts the boundary families so that the normalised
    exponent lands on the int32 limits"""
    k = rng.randint(0, 13)
    if k <= 3:
        return rng.randint(-40, 40)
    if k <= 5:
        return rng.randint(-5000, 5000)
    if k == 6:
        return rng.choice([2**31, -2**31]) + rng.randint(-2, 2)
    if k == 7:
        return rng.choice([MAXEXP - ndig_int, MINEXP - ndig_int]) + rng.randint(-2, 2)
    if k == 8:
        return rng.choice([10**18, -10**18]) + rng.randint(-2, 2)
    if k == 9:
        return rng.choice([2**63 - 1, -2**63, 2**63, -2**63 - 1, 2**64, 10**30, -10**30])
    if k == 10:
        return rng.randint(-2**31, 2**31)
    if k == 11:
        return rng.choice([0, 1, -1, 63, 64, 65, -63, -64, -65, 127, 128, 1000, -1000])
    return rng.randint(-400, 400)


def valid_literal(rng, base, tier, small_exp=False):
    """a literal of the grammar for Parse(s, base); returns the string"""
    b = base
    prefix = ""
    sep = base == 0
    if base == 0:
        b = rng.choice([10, 10, 10, 2, 8, 16])
        if b != 10:
            prefix = "0" + rng.choice({2: "bB", 8: "oO", 16: "xX"}[b])
    cls = {2: "01", 8: "01234567", 10: "0123456789", 16: "0123456789abcdefABCDEF"}[b]
    n = rand_len(rng, tier)
    ds = rand_digits(rng, n, cls)
    if rng.random() < 0.1:
        ds = cls[0] * rng.randint(1, 25) + ds
    if rng.random() < 0.1:
        ds = ds + cls[0] * rng.randint(1, 25)
    # radix point at every position (including before the first and after the last digit)
    k = rng.randint(0, 5)
    if k == 0:
        ip, fp, dot = ds, "", ""
    elif k == 1:
        ip, fp, dot = ds, "", "."
    elif k == 2:
        ip, fp, dot = "", ds, "."
    else:
        j = rng.randint(0, len(ds))
        ip, fp, dot = ds[:j], ds[j:], "."
        if not ip and not fp:
            ip = cls[-1]
    if sep and rng.random() < 0.3:
        ip, fp = with_seps(rng, ip), with_seps(rng, fp)
        if prefix and ip and rng.random() < 0.3:
            ip = "_" + ip
    mant = ip + dot + fp
    exp = ""
    if rng.random() < 0.75:
        ech = rng.choice("pP" if b == 16 else "eEeEpP")
        sig = ndigits(int(ip.replace("_", "") or "0", b)) if b == 10 else 0
        if ip.replace("_", "").strip("0") == "" and b == 10:
            f = fp.replace("_", "")
            sig = -(len(f) - len(f.lstrip("0")))
        e = rng.randint(-300, 300) if small_exp else rand_exponent(rng, sig)
        es = str(abs(e))
        if sep and rng.random() < 0.2:
            es = with_seps(rng, es)
        exp = ech + ("-" if e < 0 else rng.choice(["", "+"])) + es
    return rng.choice(["", "", "+", "-", "-"]) + prefix + mant + exp


ALPHABET = list("0123456789") + list("_.eEpP+-xXbBoOafz ") + ["Inf", "inf"]


def mutate(rng, s):
    """token-level mutation of a literal"""
    k = rng.randint(0, 9)
    pos = rng.randint(0, len(s))
    tok = rng.choice(ALPHABET)
    if k <= 2:
        return s[:pos] + tok + s[pos:]
    if k <= 4 and s:
        pos = rng.randrange(len(s))
        return s[:pos] + s[pos + 1:]
    if k == 5 and s:
        pos = rng.randrange(len(s))
        return s[:pos] + tok + s[pos + 1:]
    if k == 6:
        return s + rng.choice(["_", "e", "e+", "p-", ".", " ", "x", "0x", "e5e5", "_1"])
    if k == 7:
        return rng.choice(["_", ".", " ", "0x", "0b_", "00_", "+-", "--"]) + s
    if k == 8 and len(s) > 1:
        i, j = sorted(rng.sample(range(len(s)), 2))
        return s[:i] + s[j] + s[i + 1:j] + s[i] + s[j + 1:]
    return s.replace(rng.choice("0123456789.e"), rng.choice(["_", "__", "._", "_.", "e", ""]), 1)


def random_string(rng):
    n = rng.choice([0, 1, 1, 2, 2, 3, 3, 4, 5, 6, 8, 12])
    return "".join(rng.choice(ALPHABET) for _ in range(n))


def exp_magnitude_small(s, lim=10**6):
    """no exponent-like digit run of the string reaches `lim` in magnitude (so that neither library's
    exponent range decides acceptance)"""
    for m in re.finditer(r"[eEpP][+-]?([0-9_]+)", s):
        d = m.group(1).replace("_", "")
        if d and int(d) >= lim:
            return False
    return len(s) < 4000


# ----------------------------------------------------------------------------
# Coq rendering of operations (vm_compute sample)

def coq_bytes(h):
    b = bytes.fromhex(h) if h != "-" else b""
    return "[" + "; ".join(str(c) for c in b) + "]"


def zc(s):
    s = str(s)
    return "(%s)" % s if s.startswith("-") else s


def coq_top(o):
    t = o.split()
    n = t[0]
    if n in ("Text", "RefText"):
        return "(TText %s %s %s)" % (t[1], t[2], zc(t[3]))
    if n == "Append":
        return "(TAppend %s %s %s %s)" % (t[1], t[2], zc(t[3]), coq_bytes(t[4]))
    if n in ("Format", "Sprintf"):
        return "(T%s %s %s %s %s %s)" % (n, t[1], t[2], zc(t[3]), zc(t[4]), t[5])
    if n in ("MarshalText", "MarshalJSON", "MinPrec"):
        return "(T%s %s)" % (n, t[1])
    if n == "Parse":
        return "(TParse %s %s %s)" % (t[1], coq_bytes(t[2]), zc(t[3]))
    if n in ("SetString", "UnmarshalText", "UnmarshalJSON", "Scan"):
        return "(T%s %s %s)" % (n, t[1], coq_bytes(t[2]))
    if n == "ParseDecimal":
        return "(TParseDecimal %s %s %s %s %s)" % (t[1], coq_bytes(t[2]), zc(t[3]), t[4], vlib.MODES[int(t[5])])
    if n == "RoundTrip":
        return "(TRoundTrip %s %s %s %s %s)" % (t[1], t[2], zc(t[3]), vlib.MODES[int(t[4])], zc(t[5]))
    if n == "BigParse":
        return "(TBigParse %s %s)" % (coq_bytes(t[1]), zc(t[2]))
    raise KeyError(n)


def vm_check_for(pid):
    def vm_check(cases, g, log, tier):
        maxn = 40 if tier == "quick" else 150
        byfam = {}
        for c in cases:
            if "vars" in c and not c.get("big"):
                byfam.setdefault(c.get("family"), []).append(c)
        order, i = [], 0
        fams = sorted(byfam)
        while len(order) < maxn * 4 and i < 2000:
            for f in fams:
                if i < len(byfam[f]):
                    order.append(byfam[f][i])
            i += 1
        items, ids = [], []
        for c in order:
            if len(items) >= maxn:
                break
            if len(c["line"]) > 1500:
                continue
            obs = [g.get((c["pid"], k)) for k in range(len(c["ops"]))]
            obs = [o for o in obs if o is not None]
            if not obs:
                continue
            try:
                ops = [coq_top(o) for o in c["ops"]]
            except KeyError:
                continue
            terms = []
            for (o, _line) in obs:
                key, opn, outcome, res, vs = o
                ints = [r for r in res if not r.startswith("x:")]
                byts = [r[2:] for r in res if r.startswith("x:")]
                rterm = "(mkRes %s %s %s)" % ({"ok": "Ok", "nan": "NaN", "crash": "Crash"}[outcome],
                                              vlib.coq_list([vlib.coq_z(x) for x in ints]),
                                              vlib.coq_list([coq_bytes(h or "-") for h in byts]))
                terms.append("(%s, %s)" % (rterm, vlib.coq_list([vlib.coq_dec_from_obs(v) for v in vs])))
            items.append("(%s, %s, %s)" % (vlib.coq_list([vlib.coq_dec_from_dv(v) for v in c["vars"]]),
                                           vlib.coq_list(ops), vlib.coq_list(terms)))
            ids.append(c["pid"])
        if not items:
            return dict(ran=0, mismatches=[])
        dd = os.path.join(BUILD, "vm")
        os.makedirs(dd, exist_ok=True)
        src = os.path.join(dd, "cases_%s.v" % pid)
        with open(src, "w") as f:
            f.write("From Dec Require Import L4.TRun.\nOpen Scope Z_scope.\n")
            f.write("Definition cases : list tcase :=\n [ %s ].\n" % ";\n   ".join(items))
            f.write("Definition bad := Eval vm_compute in tmismatches cases.\nPrint bad.\n")
        rc, out, dt = sh(["coqc", "-Q", os.path.join(COQ, "theories"), "Dec", "-w", COQW, src], cwd=dd, timeout=900)
        log.append(("vm_compute", rc, dt, out[-1500:] if rc else ""))
        if rc != 0:
            return dict(ran=len(items), mismatches=["coqc failed: " + out[-500:]], secs=dt)
        m = re.search(r"bad\s*=\s*\[(.*?)\]", out, flags=re.S)
        if m is None:
            return dict(ran=len(items), mismatches=["unparsable coqc output"], secs=dt)
        mism = [ids[int(x)] for x in re.findall(r"\d+", m.group(1))] if m.group(1).strip() else []
        return dict(ran=len(items), mismatches=mism, secs=dt)
    return vm_check


def tagged(shape, msg):
    return "[shape=%s] %s" % (shape, msg)


def match_known(f, case, what, go_line, model_line):
    """a known finding suppresses exactly the failures the judge tagged with its shape"""
    shapes = list(f.get("shapes") or [])
    if f.get("shape"):
        shapes.append(f["shape"])
    return any(("[shape=%s]" % s_) in (what or "") for s_ in shapes)
