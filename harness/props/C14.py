"""C14 — integer and rational conversions are exact, with documented saturation."""
from fractions import Fraction
from vlib import fin, zero, inf, B, ndigits
import pyspec
from . import C01, common

ID = "C14"
LEVEL = "proof"
RULE = ("getters Int64/Uint64/Int/Rat/IsInt/MinPrec on values around 2^63, 2^64, 10^19, 10^38 with and without fractional "
        "parts, exponents -40..40 and extreme, all classes; setters SetInt64/SetUint64/SetInt/SetRat/NewDecimal over int64/uint64 "
        "edge values, big.Int/big.Rat up to thousands of digits, NewDecimal exponents up to +-2^63, receiver precisions incl. 0; "
        "non-trivial = finite operand or non-zero argument")
EXPLANATION = ("Props/C14.v proves the getter theorems (truncation toward zero, saturation, accuracy) and the setter theorems "
               "(exact or correctly rounded, NewDecimal saturation) on the model; the run ties the model to the code and "
               "judges the implementation's outputs with an independent exact-rational oracle")
ASSUMPTIONS = C01.ASSUMPTIONS
coq_op = common.coq_op
JUDGE_STATS = {}

I64 = [0, 1, -1, 9, 10, -10, 10**18, 10**18 + 1, -10**18, 2**63 - 1, -2**63, -2**63 + 1, 2**62, 123456789012345678, 99999, -5 * 10**17]
U64 = [0, 1, 10, 10**19 - 1, 10**19, 10**19 + 1, 2**64 - 1, 2**63, 2**63 - 1, 18446744073709551610]


def nontrivial(c):
    return True


def edge_value(rng):
    """finite decimals around integer conversion boundaries"""
    base = rng.choice([2**63, 2**64, 10**19, 10**38, 2**63 - 1, 2**64 - 1, 10**18, 1, 10**20, 99999999999999999999])
    delta = rng.choice([0, 1, -1, 2, -2, 10, -10])
    n = max(base + delta, 1)
    k = rng.choice([0, 0, 0, 1, 2, 5, 19, 25])       # fractional digits
    frac = rng.choice([0, 1, 5 * 10**max(k - 1, 0), 10**k - 1]) if k else 0
    c = n * 10**k + min(frac, 10**k - 1 if k else 0)
    c = max(c, 1)
    neg = rng.randint(0, 1)
    return fin(c, -k, neg=neg, pad=rng.choice([0, 0, 1]))


def setrat_cases(rng, count):
    """SetRat with numerators/denominators far longer than the receiver's precision: the digits that decide
    the rounding direction / exactness lie well beyond prec (+ guard words) digits"""
    for _ in range(count):
        prec = rng.choice([1, 2, 3, 7, 16, 19, 20, 34, 38, 40, 57])
        z = C01.recv(rng, prec=prec)
        gap = rng.choice([prec + 20, prec + 39, prec + 41, prec + 60, prec + 100, 2 * prec + 77])
        head = common.rand_coeff(rng, rng.choice([1, 1, 2, 5, prec]))
        tail = rng.choice([1, 1, 2, 7, 10 ** rng.randint(0, 5), common.rand_coeff(rng, 6)])
        long_ = head * 10 ** gap + rng.choice([1, -1]) * tail
        small = rng.choice([2, 3, 4, 5, 7, 8, 16, 125, 3 * 10 ** 5, 10 ** 10 + 1, common.rand_coeff(rng, 25)])
        k = rng.randint(0, 3)
        if k == 0:
            num, den = long_, small
        elif k == 1:
            num, den = small, long_
        elif k == 2:       # exact quotient times (1 + tiny)
            q = common.rand_coeff(rng, prec)
            num, den = q * small * 10 ** gap + rng.choice([1, -1]), small * 10 ** rng.randint(0, 3)
        else:
            num, den = common.rand_coeff(rng, rng.randint(1, 300)), common.rand_coeff(rng, rng.randint(1, 300))
        num = max(num, 1) * rng.choice([1, -1]); den = max(den, 2)
        f = Fraction(num, den)
        yield dict(family="setrat-long", vars=[z], ops=["SetRat 0 %d %d" % (f.numerator, f.denominator), "MinPrec 0"])


def reused_receiver_cases(rng, count):
    for _ in range(count):
        k = rng.choice([1, 1, 2, 3, 4])
        top = 10 ** (19 * k)
        v = rng.choice([top - rng.randint(1, top // 16), top - 1, 2 ** (63 * k) + rng.randint(0, 10 ** 6), top // 10, top // 10 - 1,
                        rng.randrange(top // 10, top)])
        v *= rng.choice([1, -1])
        w = rng.randint(k + 1, k + 6)
        old = fin(int("".join("%019d" % rng.randrange(B // 10, B) for _ in range(w))), rng.randint(-5, 5), neg=rng.randint(0, 1),
                  mode=rng.randint(0, 5), prec=rng.choice([19 * w, 19 * w + 5]))
        p = rng.choice([0, 19 * k, 19 * k + 1, 19 * k - 1, 34, 19 * w])
        ops = (["SetPrec 0 %d" % p] if p else ["SetPrec 0 0"]) + [rng.choice(["SetInt 0 %d" % v, "SetRat 0 %d 1" % v, "SetRat 0 %d %d" % (Fraction(v, 7).numerator, Fraction(v, 7).denominator)]), "MinPrec 0"]
        yield dict(family="setters-reused-receiver", vars=[old], ops=ops)


def gen(rng, tier):
    n = 1 if tier == "quick" else 12
    for nd in ([45000, 130000] if tier == "quick" else [43000, 45000, 90000, 130000, 200000]):
        v = int("".join(rng.choice("123456789") for _ in range(60)) + "0" * (nd - 120) + "".join(rng.choice("123456789") for _ in range(60)))
        yield dict(family="setint-huge", vars=[zero(0, prec=rng.choice([0, 34]), mode=rng.randint(0, 5))], ops=["SetInt 0 %d" % (v * rng.choice([1, -1])), "MinPrec 0"], big=True)
    for _ in range(120 * n):
        ip = rng.choice([1, 7, 2**63 - 1, 2**63, 2**64 - 1, 10**19, common.rand_coeff(rng, 19)])
        k = rng.choice([38, 56, 57, 58, 60, 76, 80])
        c = ip * 10 ** k + rng.choice([1, 1, 5, 10 ** rng.randint(0, 10)])
        x = fin(c, -k, neg=rng.randint(0, 1))
        yield dict(family="getters-deep-fraction", vars=[x], ops=["Int64 0", "Uint64 0", "Int 0", "IsInt 0", "MinPrec 0"])
    for c in reused_receiver_cases(rng, 150 * n):
        yield c
    for c in setrat_cases(rng, 200 * n):
        yield c
    getters = ["Int64 0", "Uint64 0", "Int 0", "Rat 0", "IsInt 0", "MinPrec 0"]
    for _ in range(500 * n):
        x = edge_value(rng) if rng.randint(0, 2) else common.rand_any(rng, 45, wide=False)
        yield dict(family="getters-edge", vars=[x], ops=getters)
    for _ in range(150 * n):
        c = common.rand_coeff(rng, 40)
        e = rng.choice([2**31 - 1 - ndigits(c), -2**31, 100, 1000, -100, -1000, 21 - ndigits(c), 20 - ndigits(c), 19 - ndigits(c)])
        e = common.clamp_exp(e + ndigits(c)) - ndigits(c)
        x = fin(c, e, neg=rng.randint(0, 1))
        yield dict(family="getters-exponent", vars=[x], ops=["Int64 0", "Uint64 0", "IsInt 0", "MinPrec 0"] + (["Int 0", "Rat 0"] if abs(e) < 3000 else []))
    for _ in range(300 * n):
        z = C01.recv(rng, prec=rng.choice([0, 0, 1, 2, 5, 18, 19, 20, 34, 40]))
        k = rng.randint(0, 5)
        if k == 0:
            op = "SetInt64 0 %d" % rng.choice(I64 + [rng.randint(-2**63, 2**63 - 1)])
        elif k == 1:
            op = "SetUint64 0 %d" % rng.choice(U64 + [rng.randint(0, 2**64 - 1)])
        elif k == 2:
            v = rng.choice([0, 1, -1, 10**40, 10**40 + 1, -(10**19), 2**200, 3**500, common.rand_coeff(rng, 400), -common.rand_coeff(rng, 3000)])
            op = "SetInt 0 %d" % v
        elif k == 3:
            num = rng.choice([1, -1, 2, 7, common.rand_coeff(rng, 60), -common.rand_coeff(rng, 30), 10**30])
            den = rng.choice([1, 2, 3, 7, 8, 10, 125, 10**10, 3 * 10**5, common.rand_coeff(rng, 40)])
            f = Fraction(num, den)
            op = "SetRat 0 %d %d" % (f.numerator, f.denominator)
        else:
            x = rng.choice(I64 + [rng.randint(-2**63, 2**63 - 1)])
            e = rng.choice([0, 1, -1, 40, -40, 2**31 - 1, 2**31, -2**31, -2**31 - 1, 2**31 - 20, -2**31 - 19, 2**63 - 1, -2**63, 2**62, rng.randint(-2**63, 2**63 - 1)])
            op = "NewDecimal 0 %d %d" % (x, e)
        yield dict(family="setters", vars=[z], ops=[op, "MinPrec 0", "IsInt 0"])


def judge(cases, g, m):
    fails = []
    JUDGE_STATS["judged_ops"] = 0
    for c in cases:
        if "vars" not in c:
            continue
        prev = [C01.dv_obs(v) for v in c["vars"]]
        for i, o in enumerate(c["ops"]):
            ob = g.get((c["pid"], i))
            if ob is None:
                break
            (key, opn, outcome, res, vs), line = ob
            t = o.split()
            msg = None
            if outcome != "ok":
                msg = "unexpected outcome " + outcome
            else:
                for v in vs:
                    w = pyspec.wf(v)
                    if w:
                        msg = "not canonical: " + w
                if msg is None:
                    JUDGE_STATS["judged_ops"] += 1
                    msg = judge_op(opn, t, prev, vs, res)
            if msg:
                fails.append((c, "conversion rule violated at step %d (%s): %s" % (i, o, msg), dict(implementation=line, step=i)))
                break
            prev = vs
    return fails


def sgn(v):
    return (v > 0) - (v < 0)


def exact_value(v):
    """Fraction value of a finite/zero observation (moderate exponents only), or None"""
    if v[0] == "0":
        return Fraction(0)
    if v[0] != "1":
        return None
    x = pyspec.obs_val(v)
    if abs(x.e10) > 6000:
        return None
    q = x.frac * Fraction(10) ** x.e10
    return -q if x.neg else q


def judge_op(opn, t, prev, vs, res):
    if opn in ("Int64", "Uint64", "Int", "Rat", "IsInt", "MinPrec"):
        x = prev[int(t[1])]
        q = exact_value(x)
        isinf = x[0] == "2"
        neg = x[1] == "1"
        if q is None and not isinf:
            # huge exponents: saturation / integrality only
            xv = pyspec.obs_val(x)
            big = xv.e10 > 0
            if opn == "Int64":
                want = ((-2**63, 1) if neg else (2**63 - 1, -1)) if big else (0, 1 if neg else -1)
                return None if (int(res[0]), int(res[1])) == want else "got %s want %s" % (res, want)
            if opn == "Uint64":
                want = (0, 1) if neg else ((2**64 - 1, -1) if big else (0, -1))
                return None if (int(res[0]), int(res[1])) == want else "got %s want %s" % (res, want)
            if opn == "IsInt":
                return None if int(res[0]) == (1 if big else 0) else "IsInt wrong"
            return None
        if opn == "Int64":
            if isinf:
                want = (-2**63, 1) if neg else (2**63 - 1, -1)
            else:
                tr = int(q) if q >= 0 else -int(-q)
                if tr < -2**63:
                    want = (-2**63, 1)
                elif tr > 2**63 - 1:
                    want = (2**63 - 1, -1)
                else:
                    want = (tr, sgn(Fraction(tr) - q))
            return None if (int(res[0]), int(res[1])) == want else "got %s want %s" % (res, want)
        if opn == "Uint64":
            if isinf:
                want = (0, 1) if neg else (2**64 - 1, -1)
            elif q < 0:
                want = (0, 1)
            else:
                tr = int(q)
                want = (2**64 - 1, -1) if tr > 2**64 - 1 else (tr, sgn(Fraction(tr) - q))
            return None if (int(res[0]), int(res[1])) == want else "got %s want %s" % (res, want)
        if opn == "Int":
            if isinf:
                want = (0, 0, 1 if neg else -1)
                return None if (int(res[0]), int(res[2])) == (0, want[2]) else "got %s" % res
            tr = int(q) if q >= 0 else -int(-q)
            want = (1, tr, sgn(Fraction(tr) - q))
            return None if (int(res[0]), int(res[1]), int(res[2])) == want else "got %s want %s" % (res[:3], want)
        if opn == "Rat":
            if isinf:
                return None if (int(res[0]), int(res[3])) == (0, 1 if neg else -1) else "got %s" % res
            got = Fraction(int(res[1]), int(res[2]))
            if got != q or int(res[3]) != 0 or int(res[0]) != 1:
                return "Rat %s want %s" % (res, q)
            if (got.numerator, got.denominator) != (int(res[1]), int(res[2])):
                return "Rat not in lowest terms"
            return None
        if opn == "IsInt":
            want = 0 if isinf else (1 if q.denominator == 1 else 0)
            return None if int(res[0]) == want else "IsInt %s want %d" % (res[0], want)
        if opn == "MinPrec":
            if x[0] != "1":
                want = 0
            else:
                xv = pyspec.obs_val(x)
                s = str(xv.frac.numerator).rstrip("0")
                want = len(s)
            return None if int(res[0]) == want else "MinPrec %s want %d" % (res[0], want)
    if opn in ("SetInt64", "SetUint64", "SetInt", "SetRat", "NewDecimal"):
        zi = int(t[1])
        z0, z1 = prev[zi], vs[zi]
        zprec, zmode = int(z0[2]), int(z0[3])
        if opn == "NewDecimal":
            zprec, zmode = 0, 0
            val, e10 = Fraction(int(t[2])), int(t[3])
        elif opn == "SetRat":
            val, e10 = Fraction(int(t[2]), int(t[3])), 0
        else:
            val, e10 = Fraction(int(t[2])), 0
        # documented precision for a zero-precision receiver
        if zprec == 0:
            if opn in ("SetInt64", "SetUint64", "NewDecimal"):
                p = 34
            elif opn == "SetInt":
                p = max(34, len(str(abs(int(t[2])))) if int(t[2]) != 0 else 34)
            else:
                num, den = abs(int(t[2])), int(t[3])
                if den == 1:
                    p = max(34, len(str(num)) if num else 34)
                else:
                    p = max(34, len(str(num)), len(str(den)))
        else:
            p = zprec
        if int(z1[2]) != p:
            return "precision %s, want %d" % (z1[2], p)
        if int(z1[3]) != zmode:
            return "mode changed"
        if val == 0:
            if z1[0] != "0" or z1[4] != "0":
                return "zero argument: form %s acc %s" % (z1[0], z1[4])
            return None
        # keep exponent arithmetic symbolic: saturate far-out-of-range exponents
        e10c = max(min(e10, 2**40), -2**40)
        return pyspec.check_fin_result(z1, val < 0, abs(val), e10c, p, zmode)
    return None
