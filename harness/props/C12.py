"""C12 — parsing is exact-then-rounded for decimal literals and total on arbitrary input."""
from fractions import Fraction
import re
from vlib import Dv, B, ndigits
import vlib
import pyspec
from . import textcommon as tc
from .textcommon import hx, unhx

ID = "C12"
LEVEL = "proof"
DRIVER = "tdriver"
RUNNER = "trunner"
TIMEOUT = 1800
build = tc.build
vm_check = tc.vm_check_for("C12")
match_known = tc.match_known
JUDGE_STATS = {}

RULE = ("one line = a receiver with arbitrary previous contents (precision 0..100, six modes) and one of Parse / SetString / "
        "UnmarshalText / json.Unmarshal / ParseDecimal / fmt.Fscan / BigParse on a byte string; structured stream: literals of "
        "1-5000 digits with the radix point at every position, leading/trailing zeros, separators, exponents up to +-2^31+-2, "
        "+-10^18 and the int64 limits, bases {0,2,8,10,16} with and without prefixes, 'e' and 'p' exponents; malformed stream: "
        "token-level mutations of valid literals and random strings over the alphabet 0-9 _ . e E p P + - x X b B o O a f z Inf "
        "inf space; invalid base arguments; distinct = different line text; non-trivial = the string has at least one digit")
EXPLANATION = ("Props/C12.v proves on the model that parsing never panics for the five legal bases, returns no Decimal on a "
               "scan error, and stores the Rounds/result_spec image of the literal's exact value for base-10 literals; the run "
               "ties the model to the code (receiver state, base, error/nil flags), compares acceptance and detected base with "
               "math/big's Float.Parse through the model and with an independent regular-expression transcription of the EBNF, "
               "and judges every accepted value with exact rational arithmetic (correct rounding for base 10, exact when "
               "representable / within one unit in the last place for binary exponents)")
ASSUMPTIONS = ["natural-number routines exact (C06) and word kernels correct (C07)", "strings shorter than 2^31 bytes",
               "fmt.Scanner input restricted to ASCII"]

PRECS = [0, 1, 2, 3, 5, 16, 18, 19, 20, 34, 37, 38, 39, 57, 76, 100]


def nontrivial(c):
    return any(ch.isdigit() for ch in c.get("meta", {}).get("s", ""))


def receiver(rng, prec=None, mode=None):
    p = rng.choice(PRECS) if prec is None else prec
    m = rng.randint(0, 5) if mode is None else mode
    k = rng.randint(0, 4)
    if k == 0 or p == 0:
        return Dv(0, rng.randint(0, 1), rng.choice([0, 0, 5]), p, m, rng.choice([-1, 0, 1]), [])
    if k == 1:
        return Dv(2, rng.randint(0, 1), 0, p, m, rng.choice([-1, 0, 1]), [])
    ws = tc.rand_mant(rng, rng.randint(1, 3))
    mp = tc.minprec_words(ws)
    if mp > p:
        n = tc.val_words(ws)
        n -= n % 10 ** (19 * len(ws) - p)
        ws = vlib.to_words(n, len(ws))
    return Dv(1, rng.randint(0, 1), rng.randint(-50, 50), p, m, rng.choice([-1, 0, 1]), ws, rng.choice([0, 1, 4]), rng.choice([0, B - 1]))


def op_for(rng, s, base):
    """a parsing operation on s; returns (op text, kind)"""
    k = rng.randint(0, 11)
    h = hx(s)
    if k <= 5 or base != 0 and k <= 8:
        return "Parse 0 %s %d" % (h, base)
    if base != 0:
        return "ParseDecimal 0 %s %d %d %d" % (h, base, rng.choice(PRECS), rng.randint(0, 5))
    if k == 6:
        return "SetString 0 %s" % h
    if k == 7:
        return "UnmarshalText 0 %s" % h
    if k == 8:
        if '"' in s or "\\" in s:
            return "UnmarshalText 0 %s" % h
        return "UnmarshalJSON 0 %s" % hx('"' + s + '"')
    if k == 9:
        return "ParseDecimal 0 %s %d %d %d" % (h, base, rng.choice(PRECS), rng.randint(0, 5))
    return "Parse 0 %s %d" % (h, base)


def case(family, rng, s, base, op=None, big=False, **meta):
    o = op or op_for(rng, s, base)
    ops = [o]
    if tc.exp_magnitude_small(s) and rng.random() < 0.5:
        ops.append("BigParse %s %d" % (hx(s), base))
    return dict(family=family, vars=[receiver(rng)], ops=ops, meta=dict(s=s, base=base, **meta), big=big or len(s) > 60)


def gen(rng, tier):
    n = 1 if tier == "quick" else 12
    # (i) structured literals
    for _ in range(1500 * n):
        base = rng.choice([0, 0, 0, 10, 10, 10, 2, 8, 16])
        s = tc.valid_literal(rng, base, tier)
        yield case("literal-b%d" % base, rng, s, base)
    # (ii) the int32 boundary of the normalised exponent, with and without a carry
    for _ in range(300 * n):
        nd = rng.choice([1, 2, 19, 20, 34, 35, 40])
        kind = rng.randint(0, 3)
        ds = ("9" * nd) if kind == 0 else ("9" * (nd - 1) + "5") if kind == 1 and nd > 1 else tc.rand_digits(rng, nd)
        ds = ds.lstrip("0") or "7"
        j = rng.randint(0, len(ds))
        mant = ds[:j] + ("." if j < len(ds) or rng.random() < 0.3 else "") + ds[j:]
        lead = rng.choice(["", "", "0", "000"])
        intd = len(ds[:j]) if ds[:j] else -(len(ds[j:]) - len(ds[j:].lstrip("0")))
        target = rng.choice([tc.MAXEXP, tc.MAXEXP + 1, tc.MAXEXP - 1, tc.MINEXP, tc.MINEXP - 1, tc.MINEXP + 1])
        e = target - intd
        s = rng.choice(["", "-", "+"]) + lead + mant + "e" + str(e)
        yield dict(family="exponent-boundary", vars=[receiver(rng, prec=rng.choice([1, 2, nd - 1 if nd > 1 else 1, nd, 34]))],
                   ops=[rng.choice(["Parse 0 %s 10", "Parse 0 %s 0", "SetString 0 %s", "UnmarshalText 0 %s"]).replace("%s", hx(s))],
                   meta=dict(s=s, base=10))
    # (iii) rounding-directed decimal literals (rounding digit 0/4/5/6/9, sticky far away)
    for _ in range(500 * n):
        p = rng.choice([1, 2, 5, 19, 20, 34, 38])
        head = tc.rand_digits(rng, p).lstrip("0").rjust(p, "1")
        if rng.random() < 0.3:
            head = "9" * p
        rd = rng.choice("0455556999")
        tail = rng.choice(["", "", "0" * rng.randint(1, 40), "0" * rng.randint(1, 60) + "1", "9" * rng.randint(1, 40), tc.rand_digits(rng, rng.randint(1, 30))])
        ds = head + rd + tail
        j = rng.randint(0, len(ds))
        s = rng.choice(["", "-"]) + ds[:j] + "." + ds[j:] + rng.choice(["", "e%d" % rng.randint(-30, 30), "E+%d" % rng.randint(0, 99)])
        base = rng.choice([0, 10])
        yield dict(family="rounding-directed", vars=[receiver(rng, prec=p)], ops=["Parse 0 %s %d" % (hx(s), base)], meta=dict(s=s, base=base))
    # (iv) binary exponents and non-decimal mantissas with small exponents (value judged exactly)
    for _ in range(500 * n):
        base = rng.choice([0, 0, 10, 2, 8, 16])
        s = tc.valid_literal(rng, base, "quick", small_exp=True)
        yield case("binary-exponent", rng, s, base, pow2=True)
    for _ in range(150 * n):
        # exactly representable products c * 5^j * 2^k written with a p exponent
        j = rng.choice([1, 3, 10, 27, 28, 60, 130, 200])
        k = rng.choice([j, j, j + 1, j + 5, j - 1 if j > 1 else j, 64, 63, 65, 200, 300])
        c = rng.choice([1, 1, 3, 7, 123])
        s = rng.choice(["", "-"]) + str(c * 5 ** j) + "p" + str(k)
        yield dict(family="binary-representable", vars=[receiver(rng, prec=rng.choice([1, 2, 5, 19, 34, 100]))],
                   ops=["Parse 0 %s %d" % (hx(s), rng.choice([0, 10]))], meta=dict(s=s, base=10, pow2=True))
    # (v) fmt.Fscan: leading space, literal, trailing input
    for _ in range(250 * n):
        lit = tc.valid_literal(rng, 0, "quick", small_exp=rng.random() < 0.7)
        k = rng.randint(0, 5)
        if k == 0:
            lit = tc.mutate(rng, lit)
        pre = rng.choice(["", " ", "  ", "\t", "\n ", "\r\n"])
        post = rng.choice(["", "", " ", " 12", "\n", ",5", " x"])
        s = pre + lit + post
        if any(ord(ch) > 127 for ch in s):
            continue
        yield dict(family="scan", vars=[receiver(rng)], ops=["Scan 0 %s" % hx(s)], meta=dict(s=s, base=0, scan=(pre, lit, post)))
    # (vi) malformed: mutations and random strings, every base
    for _ in range(900 * n):
        base = rng.choice([0, 10, 2, 8, 16])
        if rng.random() < 0.6:
            s = tc.valid_literal(rng, rng.choice([0, base]), "quick", small_exp=rng.random() < 0.6)
            if len(s) > 40:
                s = tc.valid_literal(rng, base, "quick", small_exp=True)[:rng.randint(1, 40)]
            for _ in range(rng.randint(1, 2)):
                s = tc.mutate(rng, s)
        else:
            s = tc.random_string(rng)
        ops = ["Parse 0 %s %d" % (hx(s), base)]
        if tc.exp_magnitude_small(s):
            ops.append("BigParse %s %d" % (hx(s), base))
        if rng.random() < 0.3:
            ops.append(op_for(rng, s, 0))
        yield dict(family="malformed", vars=[receiver(rng)], ops=ops, meta=dict(s=s, base=base))
    # (vii) exhaustive short strings over the critical characters (bases 0 and 10 and 16)
    crit = ["0", "1", "_", ".", "e", "p", "-", "x", "b"]
    import itertools
    seqs = [""] + ["".join(t) for L in (1, 2, 3) for t in itertools.product(crit, repeat=L)]
    if tier != "quick":
        seqs += ["".join(t) for t in itertools.product(crit, repeat=4)]
    for s in seqs:
        base = rng.choice([0, 0, 10, 16, 2, 8])
        yield dict(family="short-exhaustive", vars=[receiver(rng, prec=rng.choice([0, 1, 34]))],
                   ops=["Parse 0 %s %d" % (hx(s), base), "BigParse %s %d" % (hx(s), base)], meta=dict(s=s, base=base))
    # (viii) Inf spellings and invalid bases
    for s in ["Inf", "inf", "+Inf", "-Inf", "+inf", "-inf", "INF", "infinity", "Infinity", "+ Inf", "--Inf", "Inf ", "in", "nan", "NaN"]:
        for base in (0, 10, 16):
            yield dict(family="inf", vars=[receiver(rng)], ops=["Parse 0 %s %d" % (hx(s), base), "BigParse %s %d" % (hx(s), base),
                                                                 "SetString 0 %s" % hx(s), "Scan 0 %s" % hx(s)], meta=dict(s=s, base=base))
    for base in (1, 3, 7, 9, 11, 36, 62, 63, -1, -10, 100):
        s = rng.choice(["1", "", "-", "1.5", "zz", "Inf"])
        yield dict(family="invalid-base", vars=[receiver(rng)], ops=["Parse 0 %s %d" % (hx(s), base)], meta=dict(s=s, base=base))


# ----------------------------------------------------------------------------
# judge

def expected(s, base):
    """what the property demands for Parse(s, base):
    ('panic',) | ('reject',) | ('inf', neg) | ('zero', neg, b) | ('dec', neg, M, e10, b) base-10 value M*10^e10 |
    ('bin', neg, Fraction, e10, exp2, b) | ('overflow', b)"""
    if base not in (0, 2, 8, 10, 16):
        # Inf spellings are recognised, and the empty string is rejected, before the base is looked at
        if s in ("Inf", "inf", "+Inf", "-Inf", "+inf", "-inf"):
            return ("inf", s[0] == "-")
        if s == "":
            return ("reject",)
        return ("panic",)
    ok, b = tc.grammar(s, base)
    if not ok:
        return ("reject",)
    if b == 0:
        return ("inf", s[0] == "-")
    neg, M, fd, ebase, e = tc.literal_value(s, base, b)
    if not (-2**63 <= e <= 2**63 - 1):
        return ("reject",)
    if M == 0:
        return ("zero", neg, b)
    exp10 = ndigits(M)
    exp2 = 0
    if b == 10:
        exp10 -= fd
    else:
        exp2 -= fd * {2: 1, 8: 3, 16: 4}[b]
    if ebase == 10:
        exp10 += e
    else:
        exp2 += e
    if not (tc.MINEXP <= exp10 <= tc.MAXEXP):
        return ("overflow", b)
    e10 = exp10 - ndigits(M)
    if exp2 == 0:
        return ("dec", neg, M, e10, b)
    return ("bin", neg, M, e10, exp2, b)


def pow10_sig(fr):
    """significant decimal digits of a positive Fraction whose denominator is 2^a 5^b (else None)"""
    d = fr.denominator
    a = 0
    while d % 2 == 0:
        d //= 2
        a += 1
    c = 0
    while d % 5 == 0:
        d //= 5
        c += 1
    if d != 1:
        return None
    k = max(a, c)
    n = fr.numerator * 10 ** k // fr.denominator
    s = str(n).rstrip("0")
    return len(s)


def judge(cases, g, m):
    fails = []
    st = dict(judged=0, accepted=0, rejected=0, decimal_values=0, binary_values=0, binary_skipped=0, scans=0, bigparse=0, panics_expected=0)
    JUDGE_STATS.clear()
    JUDGE_STATS.update(st)
    for c in cases:
        if "vars" not in c or "meta" not in c:
            continue
        prev = c["vars"][0]
        for i, o in enumerate(c["ops"]):
            ob = g.get((c["pid"], i))
            if ob is None:
                break
            (key, opn, outcome, res, vs), line = ob
            t = o.split()
            msg = None
            try:
                msg = judge_op(c, t, opn, outcome, res, vs, prev)
            except Exception as e:   # a bug in the oracle must be visible
                msg = "oracle error: %r" % (e,)
            if msg:
                fails.append((c, "parsing property violated at step %d (%s): %s" % (i, t[0], msg), dict(implementation=line, step=i)))
                break
            if vs:
                z = vs[0]
                prev = Dv(int(z[0]), int(z[1]), int(z[5] or 0), int(z[2]), int(z[3]), int(z[4]), [int(w) for w in z[7]])
    return fails


def judge_op(c, t, opn, outcome, res, vs, prev):
    st = JUDGE_STATS
    if opn == "BigParse":
        s, base = unhx(t[1]), int(t[2])
        st["bigparse"] += 1
        ok, b = tc.grammar(s, base)
        if ok and b != 0:
            neg, M, fd, ebase, e = tc.literal_value(s, base, b)
            if not (-2**63 <= e <= 2**63 - 1):
                ok = False
        want = ["1", str(b)] if ok else ["0"]
        if outcome != "ok" or res != want:
            return "math/big verdict %s %s differs from the grammar of the doc comment %s for %r base %d" % (outcome, res, want, s[:60], base)
        return None
    if opn == "Parse":
        s, base = unhx(t[2]), int(t[3])
    elif opn == "ParseDecimal":
        s, base = unhx(t[2]), int(t[3])
    elif opn in ("SetString", "UnmarshalText"):
        s, base = unhx(t[2]), 0
    elif opn == "UnmarshalJSON":
        s, base = unhx(t[2])[1:-1], 0
    elif opn == "Scan":
        return judge_scan(c, t, outcome, res, vs, prev)
    else:
        return None
    st["judged"] += 1
    ex = expected(s, base)
    if ex[0] == "panic":
        st["panics_expected"] += 1
        return None if outcome == "crash" else "invalid base %d did not panic" % base
    if outcome != "ok":
        return "panic (%s) on %r base %d" % (outcome, s[:60], base)
    z1 = vs[0]
    if opn == "ParseDecimal":
        zprec, zmode = int(t[4]), int(t[5])
        if zprec > 2**32 - 1:
            zprec = 2**32 - 1
    else:
        zprec, zmode = prev.prec, prev.mode
    # flags
    if opn in ("Parse", "ParseDecimal"):
        err, dnil = res[0] == "1", res[1] == "1"
        gotb = int(res[2]) if not err else None
    elif opn == "SetString":
        err, dnil, gotb = res[0] == "0", res[0] == "0", None
    else:
        err = res[0] == "1"
        dnil, gotb = err, None
    if ex[0] in ("reject", "overflow"):
        st["rejected"] += 1
        if not err:
            return "accepted %r (base %d); the grammar / exponent range rejects it" % (s[:60], base)
        if not dnil:
            return tc.tagged("nonnil-on-error", "error reported for %r but the returned *Decimal is not nil" % s[:60])
        return None
    if err:
        return "rejected %r (base %d); the grammar accepts it (%s)" % (s[:60], base, ex[0])
    st["accepted"] += 1
    if dnil:
        return "nil result without error"
    if ex[0] == "inf":
        if gotb not in (None, 0):
            return "base %s for an infinity" % gotb
        if z1[0] != "2" or (z1[1] == "1") != ex[1] or z1[4] != "0":
            return "infinity not stored (%s)" % (z1[:5],)
        if opn != "ParseDecimal" and int(z1[2]) != zprec:
            return "SetInf changed the precision"
        return None
    p = zprec if zprec != 0 else 34
    if gotb is not None and gotb != ex[-1]:
        return "detected base %d, want %d" % (gotb, ex[-1])
    if int(z1[2]) != p:
        return "precision %s, want %d" % (z1[2], p)
    if int(z1[3]) != zmode:
        return "mode changed"
    w = pyspec.wf(z1)
    if w:
        return "result not canonical: " + w
    if ex[0] == "zero":
        if z1[0] != "0" or (z1[1] == "1") != ex[1] or z1[4] != "0":
            return "zero literal stored as %s" % (z1[:5],)
        return None
    if ex[0] == "dec":
        st["decimal_values"] += 1
        _, neg, M, e10, b = ex
        return pyspec.check_fin_result(z1, neg, Fraction(M), e10, p, zmode)
    _, neg, M, e10, exp2, b = ex
    if abs(exp2) > 20000:
        st["binary_skipped"] += 1
        return None
    st["binary_values"] += 1
    V = Fraction(M) * Fraction(2) ** exp2
    r = pyspec.check_fin_result(z1, neg, V, e10, p, zmode)
    if r is None:
        return None
    # not the correctly rounded value: allowed only when not representable, and then within one ulp
    sig = pow10_sig(V)
    if sig is not None and sig <= p:
        return tc.tagged("pow2-representable-inexact", "value representable in %d digits is not stored exactly: %s" % (p, r))
    if z1[0] != "1":
        return "binary-exponent literal: " + r
    raw = [int(x) for x in z1[7]]
    cs = tc.val_words(raw)
    es = int(z1[5]) - 19 * len(raw)
    if abs(es - e10) > 100000:
        return "binary-exponent literal far from the exact value: " + r
    S = Fraction(cs) * Fraction(10) ** (es - e10)
    ulp = Fraction(10) ** (int(z1[5]) - p - e10)
    if abs(S - V) >= 2 * ulp:
        return "binary-exponent literal off by two units in the last place or more: " + r
    if abs(S - V) >= ulp:
        return tc.tagged("pow2-over-one-ulp", "binary-exponent literal is more than one unit in the last place (less than two) "
                         "from the exact value: " + r)
    sgn = (S > V) - (S < V)
    if neg:
        sgn = -sgn
    if sgn != int(z1[4]):
        return tc.tagged("pow2-accuracy", "accuracy %s, stored-exact has sign %d" % (z1[4], sgn))
    return None


def judge_scan(c, t, outcome, res, vs, prev):
    st = JUDGE_STATS
    meta = c["meta"].get("scan")
    if outcome != "ok":
        return "panic (%s) in Scan" % outcome
    if not meta:
        return None
    pre, lit, post = meta
    ok, b = tc.grammar(lit, 0)
    # only inputs whose number ends at a character that cannot continue any number are judged
    if not ok or b == 0 or (post and post[0] not in " \n,"):
        return None
    ex = expected(lit, 0)
    st["scans"] += 1
    err = res[0] == "1"
    if ex[0] in ("reject", "overflow"):
        return None if err else "Scan accepted %r" % lit[:60]
    if err:
        return "Scan rejected %r" % lit[:60]
    if int(res[1]) != len(post):
        return "Scan left %s bytes unread, want %d" % (res[1], len(post))
    z1 = vs[0]
    p = prev.prec if prev.prec != 0 else 34
    if ex[0] == "zero":
        return None if z1[0] == "0" and (z1[1] == "1") == ex[1] else "zero literal stored as %s" % (z1[:5],)
    if ex[0] == "dec":
        return pyspec.check_fin_result(z1, ex[1], Fraction(ex[2]), ex[3], p, prev.mode)
    return None
