"""C13 — formatting prints the correctly rounded digits in strconv/fmt layout."""
from fractions import Fraction
import struct
from vlib import Dv, B, ndigits
import vlib
from . import textcommon as tc
from . import common
from .textcommon import hx, unhx

ID = "C13"
LEVEL = "proof"
DRIVER = "tdriver"
RUNNER = "trunner"
TIMEOUT = 1200
build = tc.build
vm_check = tc.vm_check_for("C13")
match_known = tc.match_known
JUDGE_STATS = {}

RULE = ("one line = one Decimal and Text/Append/Format/Sprintf operations: precisions -1..40, widths 0..30, all 16 flag sets, "
        "verbs e E f F g G v s b p and unsupported ones, six rounding modes; values whose rounding position is above, at and "
        "below the leading digit, carries that add a digit, the %g exponent thresholds (-5,-4,prec-1,prec,21), +-0 (fresh and "
        "stale exponent field), +-Inf; a reference family of dyadic rationals with few digits printed by strconv.FormatFloat / "
        "fmt.Sprintf on the float64 image; distinct = different line text; non-trivial = finite value and explicit precision")
EXPLANATION = ("Props/C13.v proves the layout of fmtE/fmtF/%g selection on the model given the digit string and that the rounding "
               "step is the Rounds image of x; the run ties the model to the code (string equality), judges every output against an "
               "independent Python statement of 'rounded once under x's mode at the requested position, laid out as strconv does', "
               "and validates that statement (and the code) against strconv.FormatFloat and fmt.Sprintf on exactly representable inputs")
ASSUMPTIONS = ["operands well-formed (C08)", "natural-number routines exact (C06) and word kernels correct (C07)",
               "verbs are ASCII; the '#' flag is not interpreted by Format"]

VERBS = "eEfFgGvsbp"


def nontrivial(c):
    return any(v.form == 1 for v in c.get("vars", [])) and any(" -1" not in o for o in c.get("ops", []))


def small_value(rng):
    """finite value with few digits and a small exponent (rounding position near the leading digit)"""
    nd = rng.choice([1, 1, 2, 3, 5, 8, 17, 19, 20, 25, 40])
    k = rng.randint(0, 5)
    if k == 0:
        c = 10 ** nd - 1                       # all nines: carry adds a digit
    elif k == 1:
        c = int("9" * (nd - 1) + rng.choice("456")) if nd > 1 else rng.choice([4, 5, 6])
    elif k == 2:
        c = int(rng.choice("123456789") + "".join(rng.choice("05") for _ in range(nd - 1)))
    elif k == 3:
        c = int(rng.choice(["5", "50", "500001", "49999", "6", "25", "15", "35", "45"]))
    else:
        c = int(rng.choice("123456789") + "".join(rng.choice("0123456789") for _ in range(nd - 1)))
    return c


def value(rng):
    k = rng.randint(0, 23)
    if k == 0:
        return Dv(0, rng.randint(0, 1), rng.choice([0, 0, 0, 0, 3, -3, 50, -50]), rng.choice([0, 1, 34]), rng.randint(0, 5), 0, [])
    if k == 1:
        return Dv(2, rng.randint(0, 1), 0, rng.choice([0, 1, 34]), rng.randint(0, 5), 0, [])
    c = small_value(rng)
    nd = ndigits(c)
    # exponent field = number of digits before the radix point
    e = rng.choice([-45, -7, -6, -5, -4, -3, -2, -1, 0, 1, 2, 3, 5, 6, 7, 8, 10, 20, 21, 22, 39, 40, 41, 100, rng.randint(-60, 60)])
    if k == 2:
        e = rng.choice([tc.MAXEXP, tc.MINEXP, tc.MAXEXP - 1, tc.MINEXP + 1, 10**9, -10**9])
    return vlib.fin(c, e - nd, prec=rng.choice([None, None, nd + rng.randint(0, 25)]), neg=rng.randint(0, 1), mode=rng.randint(0, 5),
                    pad=rng.choice([0, 0, 1]))


def dyadic(rng):
    """a float64 that is a dyadic rational with few decimal digits: returns (Dv under ToNearestEven, float bits)"""
    m = rng.choice([1, 3, 5, 7, 9, 15, 25, 75, 125, 625, 1023, 4095, 65535, rng.randint(1, 2**20), rng.randint(1, 2**30)])
    k = rng.randint(-30, 30) if m < 2**21 else rng.randint(-20, 20)
    fr = Fraction(m) * Fraction(2) ** k
    f = float(fr)
    assert Fraction(f) == fr
    if fr.denominator == 1:
        c, e10 = fr.numerator, 0
    else:
        j = fr.denominator.bit_length() - 1
        c, e10 = fr.numerator * 5 ** j, -j
    while c % 10 == 0:
        c //= 10
        e10 += 1
    neg = rng.randint(0, 1)
    if neg:
        f = -f
    bits = struct.unpack(">Q", struct.pack(">d", f))[0]
    return vlib.fin(c, e10, neg=neg, mode=0, prec=rng.choice([None, ndigits(c) + 10])), bits, ndigits(c)


def gen(rng, tier):
    n = 1 if tier == "quick" else 12
    # (i) Text / Append with every precision
    for _ in range(900 * n):
        x = value(rng)
        f = rng.choice("eEfgGeEfgGpb")
        if f == "f" and x.form == 1 and abs(x.exp) > 5000:
            f = "e"
        p = rng.choice([-1, 0, 1, 2, 3, rng.randint(-1, 40)])
        # directed: rounding position relative to the leading digit (for 'f': x.exp + prec around 0)
        if f == "f" and x.form == 1 and abs(x.exp) < 45 and rng.random() < 0.5:
            p = max(-x.exp + rng.choice([-2, -1, 0, 1, 2]), 0)
        if f in "gG" and x.form == 1 and abs(x.exp) < 45 and rng.random() < 0.4:
            p = max(x.exp + rng.choice([-1, 0, 1]), 0)
        ops = ["Text 0 %d %d" % (ord(f), p)]
        if rng.random() < 0.15:
            ops.append("Append 0 %d %d %s" % (ord(f), p, hx(rng.choice(["", "v=", "-", "[[", "0"]))))
        yield dict(family="text", vars=[x], ops=ops)
    # (i') 'f' with the rounding position just above / at / just below the leading digit:
    #      leading digit 4/5/6, exact ties (5), ties with a sticky tail, every mode
    for _ in range(240 * n):
        c = int(rng.choice(["5", "5", "5", "4", "6", "50", "51", "49", "500000000000000000001", "59", "5" + "0" * 19, "45", "55", "9", "1", "95", "99"]))
        nd = ndigits(c)
        e = rng.choice([-30, -7, -3, -2, -1, 0, 1, 2, 3, 20])          # exponent field: digits before the point
        x = vlib.fin(c, e - nd, neg=rng.randint(0, 1), mode=rng.randint(0, 5), pad=rng.choice([0, 0, 1]),
                     prec=rng.choice([None, nd + 3]))
        p = -e + rng.choice([0, 0, 0, -1, 1, 2])
        if p < 0:
            continue
        op = rng.choice(["Text 0 102 %d" % p, "Text 0 102 %d" % p, "Format 0 %d %d %d 102" % (rng.randint(0, 15), rng.choice([-1, 8]), p),
                         "Append 0 102 %d %s" % (p, hx("x="))])
        yield dict(family="f-leading-digit", vars=[x], ops=[op])
    # (i'') 'f' where the whole value lies below the rounding position (result 0 or one unit): the decision
    #       half / above half / below half depends on digits beyond the first mantissa word
    for _ in range(150 * n):
        k = rng.choice([19, 20, 25, 37, 38, 39, 57, 60])
        lead = rng.choice([5, 5, 5, 4, 6, 49, 50, 51])
        tail = rng.choice([0, 1, 1, 7, 10 ** rng.randint(0, k - 19), common.rand_coeff(rng, max(1, k - 19))])
        c = lead * 10 ** k + (tail % 10 ** (k - 18) if k > 18 else 0)
        if lead in (49,):
            c = lead * 10 ** k + int("9" * k)
        nd = ndigits(c)
        e = rng.choice([-30, -7, -3, -2, -1, 0, 0])
        x = vlib.fin(c, e - nd, neg=rng.randint(0, 1), mode=rng.choice([0, 0, 0, 1, 1, 2, 3, 4, 5]), pad=rng.choice([0, 0, 1]))
        p = -e
        op = rng.choice(["Text 0 102 %d" % p, "Format 0 %d %d %d 102" % (rng.randint(0, 15), rng.choice([-1, 8]), p),
                         "Append 0 102 %d %s" % (p, hx("x="))])
        yield dict(family="f-below-position", vars=[x], ops=[op])
    # (ii) Format through a fmt.State with every flag set
    for _ in range(900 * n):
        x = value(rng)
        vb = rng.choice(VERBS + VERBS + "dxq")
        if vb in "fF" and x.form == 1 and abs(x.exp) > 5000:
            vb = "e"
        fl = rng.randint(0, 15)
        w = rng.choice([-1, -1, rng.randint(0, 30)])
        p = rng.choice([-1, -1, 0, 1, 2, rng.randint(0, 40)])
        op = rng.choice(["Format", "Format", "Sprintf"])
        if vb == "p":
            op = "Format"      # fmt never hands %p of a pointer to a Formatter (it prints the address)
        yield dict(family="format", vars=[x], ops=["%s 0 %d %d %d %d" % (op, fl, w, p, ord(vb))])
    # (iii) reference: strconv / fmt on the float64 image (ToNearestEven, exactly representable)
    for _ in range(700 * n):
        x, bits, nd = dyadic(rng)
        ops = []
        for _ in range(3):
            if rng.random() < 0.5:
                f = rng.choice("eEfgG")
                p = rng.choice([0, 1, 2, 3, 5, rng.randint(0, 40)])
                if nd <= 15 and rng.random() < 0.15:
                    p = -1
                ops.append("RefText 0 %d %d %d" % (ord(f), p, bits))
            else:
                vb = rng.choice("eEfFgGv")
                fl = rng.randint(0, 15)
                w = rng.choice([-1, rng.randint(0, 30)])
                p = rng.choice([0, 1, 2, 6, rng.randint(0, 40)])
                if rng.random() < 0.2 and (vb in "eEfF" or nd <= 15):
                    p = -1
                ops.append("Sprintf 0 %d %d %d %d %d" % (fl, w, p, ord(vb), bits))
        yield dict(family="reference", vars=[x], ops=ops, ref=True)
    # (iv) zeros and infinities against fmt
    for _ in range(120 * n):
        neg = rng.randint(0, 1)
        if rng.random() < 0.5:
            x = Dv(2, neg, 0, rng.choice([0, 34]), 0, 0, [])
            bits = 0xFFF0000000000000 if neg else 0x7FF0000000000000
        else:
            x = Dv(0, neg, 0, rng.choice([0, 34]), 0, 0, [])
            bits = 0x8000000000000000 if neg else 0
        vb = rng.choice("eEfFgGv")
        yield dict(family="reference-special", vars=[x], ref=True,
                   ops=["Sprintf 0 %d %d %d %d %d" % (rng.randint(0, 15), rng.choice([-1, rng.randint(0, 12)]), rng.choice([-1, 0, 3]), ord(vb), bits),
                        "RefText 0 %d %d %d" % (ord(rng.choice("eEfgG")), rng.choice([-1, 0, 2]), bits)])
    # (v) unknown format characters, large mantissas
    for _ in range(60 * n):
        x = value(rng)
        if x.form == 1 and abs(x.exp) > 5000:
            continue      # the rounding step of Append aligns x with 10^(1-prec): cost proportional to |exp|
        yield dict(family="unknown-format", vars=[x], ops=["Text 0 %d %d" % (ord(rng.choice("xdFvs%z")), rng.choice([-1, 0, 3]))])
    for _ in range(60 * n):
        ws = tc.rand_mant(rng, tc.rand_nwords(rng, tier))
        x = tc.mk_fin(rng, ws, rng.choice([rng.randint(-30, 30), tc.rand_exp_full(rng)]))
        f = rng.choice("eEgGpb")
        yield dict(family="large", vars=[x], ops=["Text 0 %d %d" % (ord(f), rng.choice([0, 1, 18, 19, 20, 37, 38, 39, 40, 100, 19 * len(ws) - 1, 19 * len(ws)]))], big=True)


def judge(cases, g, m):
    fails = []
    JUDGE_STATS.clear()
    JUDGE_STATS.update(texts=0, formats=0, strconv_refs=0, fmt_refs=0)
    for c in cases:
        if "vars" not in c:
            continue
        x = c["vars"][0]
        ex = tc.dv_exact(x)
        for i, o in enumerate(c["ops"]):
            ob = g.get((c["pid"], i))
            if ob is None:
                break
            (key, opn, outcome, res, vs), line = ob
            t = o.split()
            msg = None
            if outcome != "ok":
                msg = "operation panicked (%s)" % outcome
                if opn == "Text" and chr(int(t[2])) not in "eEfgGbp":
                    msg = tc.tagged("unknown-format-sign", msg)
            else:
                try:
                    msg = judge_op(c, x, ex, t, opn, res, line)
                except Exception as e:
                    msg = "oracle error: %r" % (e,)
            if msg:
                fails.append((c, "formatting property violated at step %d (%s): %s" % (i, " ".join(t[:1] + t[2:6]), msg),
                              dict(implementation=line, step=i)))
                break
    return fails


def overflowed(x, got, want):
    """x has the largest exponent, the correctly rounded value is 10^MaxExp and the output shows only zero digits:
    the rounded copy became an infinity"""
    return (x.form == 1 and x.exp == tc.MAXEXP and "2147483647" in want
            and all(ch == "0" for ch in got.split("=")[-1] if ch.isdigit()))


def judge_op(c, x, ex, t, opn, res, line):
    got = unhx([r for r in res if r.startswith("x:")][0])
    stale_zero = x.form == 0 and x.exp != 0
    if opn in ("Text", "Append", "RefText"):
        JUDGE_STATS["texts"] += 1
        f, p = chr(int(t[2])), int(t[3])
        if opn == "Append":
            pre = unhx(t[4])
            if not got.startswith(pre):
                return "Append dropped the buffer prefix"
            got = got[len(pre):]
        want = tc.spec_text(ex, f, p, x.mode, x.prec)
        if opn == "RefText":
            ref = tc.ref_token(line)
            JUDGE_STATS["strconv_refs"] += 1
            if ref != want:
                return "reference formatter disagrees with strconv.FormatFloat: %r vs %r" % (want, ref)
        if got != want:
            if stale_zero:
                return tc.tagged("zero-stale-exponent", "zero with exponent field %d prints %r, want %r" % (x.exp, got[:60], want))
            if f not in "eEfgGbp" and got == "-" + want:
                return tc.tagged("unknown-format-sign", "unknown format prints %r, want %r" % (got, want))
            if overflowed(x, got, want):
                return tc.tagged("round-overflow-maxexp", "rounding carried past MaxExp: got %r, want %r" % (got[:60], want[:60]))
            return "got %r, want %r (x = %s%de%d, mode %d)" % (got[:80], want[:80], "-" if ex[1] else "", ex[2], ex[3], x.mode)
        return None
    if opn in ("Format", "Sprintf"):
        JUDGE_STATS["formats"] += 1
        fl, w, p, vb = int(t[2]), int(t[3]), int(t[4]), chr(int(t[5]))
        eff = fl
        if vb == "v":
            eff = fl & ~1          # fmt: %+v is the plus-v flag, not a sign request
        want = tc.spec_format(ex, eff, w, p, vb, x.mode, x.prec)
        if want is None:
            want = "%!" + vb + "(*decimal.Decimal=" + tc.spec_text(ex, "g", 10, x.mode, x.prec) + ")"
        ref = tc.ref_token(line) if opn == "Sprintf" else None
        if ref is not None:
            JUDGE_STATS["fmt_refs"] += 1
            if ref != want:
                return "reference formatter disagrees with fmt.Sprintf: %r vs %r" % (want, ref)
        if got != want:
            if vb == "v" and (fl & 1) and got == tc.spec_format(ex, fl, w, p, vb, x.mode, x.prec):
                return tc.tagged("plus-v", "%%+v prints %r, fmt prints %r for floating-point numbers" % (got, want))
            if overflowed(x, got, want):
                return tc.tagged("round-overflow-maxexp", "rounding carried past MaxExp: got %r, want %r" % (got[:60], want[:60]))
            if stale_zero:
                return tc.tagged("zero-stale-exponent", "zero with exponent field %d prints %r, want %r" % (x.exp, got[:60], want))
            if (fl & 4) and (fl & 8):
                return tc.tagged("minus-zero-flags", "flags '-' and '0' together: got %r, fmt pads on the right: %r" % (got, want))
            if ex[0] == "inf" and not ex[1] and (fl & 1) and (fl & 2):
                return tc.tagged("plus-space-inf", "flags '+' and ' ' on +Inf: got %r, fmt prints %r" % (got, want))
            return "got %r, want %r (flags %d width %d prec %d verb %s)" % (got[:80], want[:80], fl, w, p, vb)
        return None
    return None
