"""C11 — text output parses back to exactly the same Decimal."""
from fractions import Fraction
import re
from vlib import Dv, B, ndigits
import vlib
from . import textcommon as tc
from .textcommon import hx, unhx

ID = "C11"
LEVEL = "proof"
DRIVER = "tdriver"
RUNNER = "trunner"
TIMEOUT = 1200
build = tc.build
vm_check = tc.vm_check_for("C11")
match_known = tc.match_known
JUDGE_STATS = {}

RULE = ("one line = one Decimal (every mantissa shape: low/interior zero words, 1-400 words; exponents MinExp..MaxExp, "
        "|exp| <= 5000 for 'f'; both signs; +-0 with fresh and stale exponent fields; +-Inf) and the operations Text/Append "
        "with precision -1 in the formats e E f g G p b, MarshalText, json.Marshal, and RoundTrip (the string is parsed "
        "back into a fresh receiver of precision max(MinPrec,1)+k under each mode, base 10 and base 0, then compared with "
        "Cmp and Signbit; formats 0/1 go through UnmarshalText / json.Unmarshal); distinct = different line text; "
        "non-trivial = a finite value")
EXPLANATION = ("Props/C11.v proves on the model that the precision -1 output consists of the digits of the mantissa "
               "(exactly MinPrec significant digits) and that parsing it back yields the value and sign of x; the run "
               "ties the model to the code (string equality, receiver state) and judges the implementation's own round "
               "trip, its digit count and the exact value of the printed string with an independent rational parser")
ASSUMPTIONS = ["operands well-formed (C08)", "mantissas shorter than 2^32-18 digits",
               "natural-number routines exact (C06) and word kernels correct (C07)"]


def nontrivial(c):
    return any(v.form == 1 for v in c.get("vars", []))


def values(rng, tier, forfmt=None):
    """one Decimal"""
    k = rng.randint(0, 19)
    if k == 0:
        return Dv(0, rng.randint(0, 1), rng.choice([0, 0, 0, 7, -7, 100, -100]), rng.choice([0, 1, 34]), rng.randint(0, 5), 0, [])
    if k == 1:
        return Dv(2, rng.randint(0, 1), 0, rng.choice([0, 1, 34]), rng.randint(0, 5), 0, [])
    n = tc.rand_nwords(rng, tier)
    ws = tc.rand_mant(rng, n)
    e = tc.rand_exp_full(rng)
    if forfmt == "f":
        e = rng.choice([rng.randint(-30, 30), rng.randint(-5000, 5000), 0, 1, -1, 19, 20, 38])
    return tc.mk_fin(rng, ws, e)


def gen(rng, tier):
    n = 1 if tier == "quick" else 12
    # (i) every format with precision -1, plus the marshalers
    for _ in range(700 * n):
        f = rng.choice("eEgGpbf")
        x = values(rng, tier, f)
        ops = ["Text 0 %d -1" % ord(f)]
        k = rng.randint(0, 5)
        if k == 0:
            ops.append("Append 0 %d -1 %s" % (ord(f), hx(rng.choice(["", "x=", "[", "-"]))))
        elif k == 1:
            ops.append("MarshalText 0")
        elif k == 2:
            ops.append("MarshalJSON 0")
        elif k == 3:
            ops.append("MinPrec 0")
        yield dict(family="text-%s" % ("f" if f == "f" else "pb" if f in "pb" else "eg"), vars=[x], ops=ops,
                   big=len(x.words) > 6)
    # (ii) the round trip itself
    for _ in range(900 * n):
        f = rng.choice("eEgGpbf" + "\x00\x01")
        x = values(rng, tier, "f" if f == "f" else None)
        extra = rng.choice([0, 0, 0, 1, 5, 19, 40])
        md = rng.randint(0, 5)
        base = rng.choice([10, 0]) if f not in "\x00\x01" else 0
        yield dict(family="roundtrip-%s" % ("marshal" if f in "\x00\x01" else f if f == "f" else "pb" if f in "pb" else "eg"),
                   vars=[x], ops=["RoundTrip 0 %d %d %d %d" % (ord(f), extra, md, base)], big=len(x.words) > 6)
    # (iii) directed: single digits, powers of ten, all-nines, word boundaries, %g thresholds
    for _ in range(300 * n):
        nd = rng.choice([1, 2, 18, 19, 20, 37, 38, 39, 57, 58])
        c = rng.choice([10 ** (nd - 1), 10 ** nd - 1, int("1" + "0" * (nd - 2) + "1") if nd > 1 else 7, tc_rand(rng, nd)])
        e10 = rng.choice([-5, -4, -3, -1, 0, 1, 5, 6, 7, 20, 21, 22]) - ndigits(c)
        e10 += rng.choice([0, 0, 1, -1])
        x = vlib.fin(c, e10, neg=rng.randint(0, 1), mode=rng.randint(0, 5), pad=rng.choice([0, 0, 1, 2]),
                     prec=rng.choice([None, ndigits(c) + rng.randint(0, 30)]))
        f = rng.choice("eEgGpbf")
        yield dict(family="directed", vars=[x], ops=["Text 0 %d -1" % ord(f), "RoundTrip 0 %d 0 %d %d" % (ord(f), rng.randint(0, 5), rng.choice([0, 10])),
                                                      "RoundTrip 0 %d 0 0 0" % rng.choice([0, 1])])


def tc_rand(rng, nd):
    s = "".join(rng.choice("0123456789") for _ in range(nd))
    s = rng.choice("123456789") + s[1:]
    return int(s)


def text_value(s):
    """independent reading of a printed number: (neg, Fraction mantissa digits int, e10, sigdigits) or ('inf',neg)"""
    neg = s.startswith("-")
    t = s[1:] if s[:1] in "+-" else s
    if t == "Inf":
        return ("inf", neg, None, None, None)
    m = re.match(r"^([0-9]*)(?:\.([0-9]*))?(?:[eE]([+-]?[0-9]+))?$", t)
    if not m:
        return None
    ip, fp, ev = m.group(1), m.group(2) or "", m.group(3)
    digs = ip + fp
    e10 = (int(ev) if ev else 0) - len(fp)
    n = int(digs) if digs else 0
    sig = digs.lstrip("0")
    tz = len(sig) - len(sig.rstrip("0"))
    sig = sig.rstrip("0")
    if n:
        n //= 10 ** tz
        e10 += tz
    return ("zero" if n == 0 else "fin", neg, n, e10, sig)


def judge(cases, g, m):
    fails = []
    JUDGE_STATS.update(texts=0, roundtrips=0)
    for c in cases:
        if "vars" not in c:
            continue
        x = c["vars"][0]
        ex = tc.dv_exact(x)
        for i, o in enumerate(c["ops"]):
            ob = g.get((c["pid"], i))
            if ob is None:
                break
            (key, opn, outcome, res, vs), line = ob
            t = o.split()
            msg = None
            if outcome != "ok":
                msg = "operation panicked (%s)" % outcome
            elif opn in ("Text", "Append", "MarshalText", "MarshalJSON"):
                JUDGE_STATS["texts"] += 1
                s = unhx([r for r in res if r.startswith("x:")][0])
                if opn == "Append":
                    pre = unhx(t[4])
                    if not s.startswith(pre):
                        msg = "Append dropped the buffer prefix"
                    s = s[len(pre):]
                if opn == "MarshalJSON":
                    if not (len(s) >= 2 and s[0] == '"' and s[-1] == '"'):
                        msg = "JSON form is not a quoted string"
                    s = s[1:-1]
                if msg is None:
                    msg = check_text(ex, x, s)
            elif opn == "RoundTrip":
                JUDGE_STATS["roundtrips"] += 1
                s = unhx([r for r in res if r.startswith("x:")][0])
                ints = [r for r in res if not r.startswith("x:")]
                if ints[0] != "0":
                    msg = "the printed string %r is rejected by Parse" % s[:80]
                else:
                    cmpv, sgn, mp, acc = ints[1], ints[2], int(ints[3]), ints[4]
                    if cmpv != "0":
                        msg = "parse(text(x)) != x (Cmp = %s) for %r" % (cmpv, s[:80])
                    elif sgn != "1":
                        msg = "sign lost in the round trip of %r" % s[:80]
                    elif acc != "0":
                        msg = "round trip reports accuracy %s" % acc
                    elif ex[0] == "fin" and mp != ndigits(ex[2]):
                        msg = "MinPrec = %d, mantissa has %d significant digits" % (mp, ndigits(ex[2]))
            if msg:
                fails.append((c, "round-trip property violated at step %d (%s): %s" % (i, " ".join(t[:3]), msg),
                              dict(implementation=line, step=i)))
                break
    return fails


def check_text(ex, x, s):
    """the printed string denotes exactly x and carries exactly MinPrec significant digits"""
    tv = text_value(s)
    if tv is None:
        return "output %r is not a number" % s[:80]
    kind, neg, coeff, e10 = ex
    if tv[0] != kind:
        return "output %r denotes a %s, x is %s" % (s[:80], tv[0], kind)
    if tv[1] != bool(neg):
        return "sign of %r differs from x" % s[:80]
    if kind == "fin":
        if tv[2] != coeff or tv[3] != e10:
            return "output %r denotes %d e%d, x = %d e%d" % (s[:60], tv[2], tv[3], coeff, e10)
        if tv[4] != str(coeff):
            return "significant digits %s..., want the %d digits of the mantissa" % (tv[4][:30], ndigits(coeff))
    return None
