"""C02 — Acc() truthfully reports the direction of the rounding error."""
from . import C01, C14, common

from vlib import fin, zero, inf, B, ndigits
import pyspec

ID = "C02"
LEVEL = "proof"
RULE = C01.RULE + "; the judge compares Acc() of every result with the sign of (stored - exact) computed in exact rational arithmetic"
EXPLANATION = ("Props/C02.v proves for the model that the accuracy of every Add/Sub/Mul/Quo/Set/SetPrec result is the "
               "sign of (stored value - exact value) and Exact iff nothing was lost; the run ties the model to the code "
               "and re-derives the accuracy of each implementation result with an independent exact-rational oracle")
ASSUMPTIONS = C01.ASSUMPTIONS
coq_op = C01.coq_op
nontrivial = C01.nontrivial
JUDGE_STATS = C01.JUDGE_STATS


def gen(rng, tier):
    # the C01 families with a different PRNG stream, biased to exact/inexact boundaries
    rng.random()
    for c in C01.gen(rng, tier):
        yield c
    for c in setmantexp_cases(rng, 150 if tier == "quick" else 1500):
        yield c
    # exact special-value results (a zero or infinite operand) must report Exact whatever accuracy the operands carried
    from . import C04
    for c in C04.gen(rng, "quick"):
        if c["family"] in ("class-table-Add", "class-table-Sub", "class-table-Mul", "class-table-Quo", "zero-inf-alias-exhaustive"):
            c = dict(c); c["family"] = "c04-" + c["family"]
            yield c
    # the setters named by the property (judged by the conversion oracle of C14, which checks Acc() too)
    for c in C14.gen(rng, tier):
        if c["family"] in ("setters", "setrat-long"):
            c = dict(c); c["family"] = "c14-" + c["family"]
            yield c


def setmantexp_cases(rng, count):
    for _ in range(count):
        mnt = common.rand_fin(rng, rng.choice([1, 5, 19, 20, 40]), wide=False)
        mnt.acc = rng.choice([-1, 1, 1, -1, 0])
        z = C01.recv(rng)
        e = rng.choice([0, 0, 0, 1, -1, 30, -30, 2**31 - 1, -2**31, rng.randint(-50, 50)])
        shape = rng.choice(["0 1", "0 1", "1 1"])
        yield dict(family="c02-setmantexp", vars=[z, mnt], ops=["SetMantExp %s %d" % (shape, e)])


def judge_setmantexp(cases, g):
    fails = []
    for c in cases:
        ob = g.get((c["pid"], 0))
        if ob is None:
            continue
        (key, opn, outcome, res, vs), line = ob
        t = c["ops"][0].split()
        mv = C01.dv_obs(c["vars"][int(t[2])])
        z1 = vs[int(t[1])]
        msg = None
        if outcome != "ok":
            msg = "unexpected outcome " + outcome
        elif mv[0] != "1":
            msg = None if (z1[0], z1[1], z1[4]) == (mv[0], mv[1], mv[4]) or z1[0] == mv[0] else "class changed"
        else:
            v = pyspec.obs_val(mv)
            e = max(min(int(t[3]), 2**40), -2**40)
            msg = pyspec.check_fin_result(z1, v.neg, v.frac, v.e10 + e, int(mv[2]), int(mv[3]))
        if msg:
            fails.append((c, "accuracy/value rule violated (SetMantExp): %s" % msg, dict(implementation=line, step=0)))
    return fails


def judge(cases, g, m):
    a = [c for c in cases if not c.get("family", "").startswith(("c14-", "c02-", "c04-"))]
    b = [c for c in cases if c.get("family", "").startswith("c14-")]
    s_ = [c for c in cases if c.get("family", "") == "c02-setmantexp"]
    from . import C04
    d4 = [dict(c, family=c["family"][4:]) for c in cases if c.get("family", "").startswith("c04-")]
    return C01.judge(a, g, m) + C14.judge(b, g, m) + judge_setmantexp(s_, g) + C04.judge(d4, g, m)
