"""C02 — Acc() truthfully reports the direction of the rounding error."""
from . import C01, common

from vlib import fin, zero, inf, B, ndigits
import pyspec

ID = "C02"
LEVEL = "proof"
RULE = C01.RULE + "; the judge compares Acc() of every result with the sign of (stored - exact) computed in exact rational arithmetic"
EXPLANATION = ("Props/C02.v proves for the model that the accuracy of every Add/Sub/Mul/Quo/Set/SetPrec result is the "
               "sign of (stored value - exact value) and Exact iff nothing was lost; the run ties the model to the code "
               "and re-derives the accuracy of each implementation result with an independent exact-rational oracle")
ASSUMPTIONS = C01.ASSUMPTIONS
coq_op = C01.coq_op
nontrivial = C01.nontrivial
JUDGE_STATS = C01.JUDGE_STATS


def gen(rng, tier):
    # the C01 families with a different PRNG stream, biased to exact/inexact boundaries
    rng.random()
    for c in C01.gen(rng, tier):
        yield c


def judge(cases, g, m):
    return C01.judge(cases, g, m)
