"""C02 — Acc() truthfully reports the direction of the rounding error."""
from . import C01, C14, common

from vlib import fin, zero, inf, B, ndigits
import pyspec

ID = "C02"
LEVEL = "proof"
RULE = C01.RULE + "; the judge compares Acc() of every result with the sign of (stored - exact) computed in exact rational arithmetic"
EXPLANATION = ("Props/C02.v proves for the model that the accuracy of every Add/Sub/Mul/Quo/Set/SetPrec result is the "
               "sign of (stored value - exact value) and Exact iff nothing was lost; the run ties the model to the code "
               "and re-derives the accuracy of each implementation result with an independent exact-rational oracle")
ASSUMPTIONS = C01.ASSUMPTIONS
coq_op = C01.coq_op
nontrivial = C01.nontrivial
JUDGE_STATS = C01.JUDGE_STATS


def gen(rng, tier):
    # the C01 families with a different PRNG stream, biased to exact/inexact boundaries
    rng.random()
    for c in C01.gen(rng, tier):
        yield c
    # the setters named by the property (judged by the conversion oracle of C14, which checks Acc() too)
    for c in C14.gen(rng, tier):
        if c["family"] in ("setters", "setrat-long"):
            c = dict(c); c["family"] = "c14-" + c["family"]
            yield c


def judge(cases, g, m):
    a = [c for c in cases if not c.get("family", "").startswith("c14-")]
    b = [c for c in cases if c.get("family", "").startswith("c14-")]
    return C01.judge(a, g, m) + C14.judge(b, g, m)
