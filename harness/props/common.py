"""Generators shared by the property modules."""
import random
from vlib import Dv, fin, zero, inf, B, ndigits

MODES = range(6)

EDGE_COEFFS = [1, 2, 5, 9, 10, 11, 99, 100, 101, 123, 10**18, 10**18 + 1, 10**19 - 1, 10**19, 10**19 + 1,
               2**63 - 1, 2**63, 2**64 - 1, 2**64, 10**37, 10**38 - 1, 10**38, 10**38 + 1, 5 * 10**18,
               5 * 10**18 + 1, 5 * 10**18 - 1]


def rand_coeff(rng, maxdigits=60):
    """random positive integer with interesting digit patterns"""
    nd = rng.choice([1, 2, 3, rng.randint(1, 19), rng.randint(15, 25), rng.randint(30, 45), rng.randint(1, maxdigits)])
    nd = min(nd, maxdigits)
    kind = rng.randint(0, 9)
    if kind == 0:
        s = "9" * nd
    elif kind == 1:
        s = "1" + "0" * (nd - 1)
    elif kind == 2:
        s = "".join(rng.choice("09") for _ in range(nd))
    elif kind == 3:
        s = "".join(rng.choice("0000000005") for _ in range(nd))
    elif kind == 4 and nd > 2:
        k = rng.randint(1, nd - 1)
        s = "".join(rng.choice("0123456789") for _ in range(k)) + "0" * (nd - k)
    elif kind == 5 and nd > 2:
        k = rng.randint(1, nd - 1)
        s = "".join(rng.choice("0123456789") for _ in range(k)) + "9" * (nd - k)
    else:
        s = "".join(rng.choice("0123456789") for _ in range(nd))
    if s[0] == "0":
        s = rng.choice("123456789") + s[1:]
    return int(s)


def rand_exp(rng, wide=True):
    k = rng.randint(0, 9)
    if k <= 4:
        return rng.randint(-40, 40)
    if k <= 6:
        return rng.randint(-400, 400)
    if not wide:
        return rng.randint(-40, 40)
    if k == 7:
        return rng.choice([2**31 - 1, -2**31, 2**31 - 2, -2**31 + 1, 2**31 - 40, -2**31 + 40])
    return rng.randint(-2**31, 2**31 - 1)


def clamp_exp(e):
    return max(-2**31, min(2**31 - 1, e))


def rand_fin(rng, maxdigits=60, neg=None, wide=True, prec=None, mode=None, pad=None):
    c = rand_coeff(rng, maxdigits)
    nd = ndigits(c)
    e = rand_exp(rng, wide)
    # the exp field (e + nd) must fit int32
    e = clamp_exp(e + nd) - nd
    tz = len(str(c)) - len(str(c).rstrip("0"))
    minprec = nd - tz
    if prec is None:
        prec = rng.choice([minprec, minprec + 1, nd, nd + rng.randint(0, 20), 34, 100])
        prec = max(prec, minprec, 1)
    prec = max(prec, minprec, 1)
    return fin(c, e, prec=prec, neg=rng.randint(0, 1) if neg is None else neg,
               mode=rng.randint(0, 5) if mode is None else mode, acc=rng.choice([-1, 0, 1]),
               pad=rng.choice([0, 0, 0, 1, 2]) if pad is None else pad,
               extracap=rng.choice([0, 0, 1, 4]), stale=rng.choice([0, B - 1, 2**64 - 1]))


def rand_any(rng, maxdigits=60, wide=True):
    k = rng.randint(0, 9)
    if k == 0:
        return zero(rng.randint(0, 1), prec=rng.choice([0, 1, 34]), mode=rng.randint(0, 5), acc=rng.choice([-1, 0, 1]))
    if k == 1:
        return inf(rng.randint(0, 1), prec=rng.choice([0, 1, 34]), mode=rng.randint(0, 5), acc=rng.choice([-1, 0, 1]))
    return rand_fin(rng, maxdigits, wide=wide)


# ----------------------------------------------------------------------------
# rendering of operation text as a Coq term of type L3.Store.op (vm_compute sample)

MODE_NAMES = ["ToNearestEven", "ToNearestAway", "ToZero", "AwayFromZero", "ToNegativeInf", "ToPositiveInf"]


def _z(s):
    return "(%s)" % s if str(s).startswith("-") else str(s)


def coq_op(o):
    t = o.split()
    n = t[0]
    if n in ("Cmp", "Add", "Sub", "Mul", "Quo", "FMA", "Set", "Neg", "Abs", "Copy", "Sign", "Signbit", "IsZero", "IsInf",
             "BitsExp", "MinPrec", "IsInt", "Int64", "Uint64", "Int", "Rat", "GobEncode", "GobRoundTrip", "Sqrt"):
        return "(O%s %s)" % (n, " ".join(t[1:]))
    if n == "SetPrec":
        return "(OSetPrec %s %s)" % (t[1], _z(t[2]))
    if n == "SetMode":
        return "(OSetMode %s %s)" % (t[1], MODE_NAMES[int(t[2])])
    if n == "SetInf":
        return "(OSetInf %s %s)" % (t[1], "true" if t[2] == "1" else "false")
    if n in ("SetInt64", "SetUint64", "SetInt"):
        return "(O%s %s %s)" % (n, t[1], _z(t[2]))
    if n in ("SetRat", "NewDecimal"):
        return "(O%s %s %s %s)" % (n, t[1], _z(t[2]), _z(t[3]))
    if n == "SetMantExp":
        return "(OSetMantExp %s %s %s)" % (t[1], t[2], _z(t[3]))
    if n == "MantExp":
        return "(OMantExp %s %s)" % (t[1], "None" if t[2] == "-" else "(Some %s%%nat)" % t[2])
    if n == "SetBitsExp":
        return "(OSetBitsExp %s %s [%s])" % (t[1], _z(t[2]), "; ".join(t[4:]))
    if n == "GobDecode":
        h = "" if t[2] == "-" else t[2]
        return "(OGobDecode %s [%s])" % (t[1], "; ".join(str(int(h[i:i + 2], 16)) for i in range(0, len(h), 2)))
    raise KeyError(n)


# ----------------------------------------------------------------------------
# random programs over all modelled public operations

def rand_op(rng, nv, heavy=True):
    v = lambda: rng.randint(0, nv - 1)
    k = rng.randint(0, 29)
    if k <= 7:
        return "%s %d %d %d" % (rng.choice(["Add", "Sub", "Mul", "Quo"]), v(), v(), v())
    if k == 8:
        return "FMA %d %d %d %d" % (v(), v(), v(), v())
    if k <= 10:
        return "%s %d %d" % (rng.choice(["Set", "Neg", "Abs", "Copy"]), v(), v())
    if k == 11:
        return "SetPrec %d %d" % (v(), rng.choice([0, 1, 2, 5, 19, 20, 34, 38, 60]))
    if k == 12:
        return "SetMode %d %d" % (v(), rng.randint(0, 5))
    if k == 13:
        return "SetInf %d %d" % (v(), rng.randint(0, 1))
    if k == 14:
        return "SetInt64 %d %d" % (v(), rng.choice([0, 1, -1, 2**63 - 1, -2**63, rng.randint(-10**6, 10**6), rng.randint(-2**63, 2**63 - 1)]))
    if k == 15:
        return "SetUint64 %d %d" % (v(), rng.choice([0, 1, 2**64 - 1, 10**19, rng.randint(0, 2**64 - 1)]))
    if k == 16:
        return "SetInt %d %d" % (v(), rng.choice([0, 10**40, -(10**25) + 1, rand_coeff(rng, 80), -rand_coeff(rng, 80)]))
    if k == 17:
        from fractions import Fraction
        f = Fraction(rng.choice([1, -1, 22, rand_coeff(rng, 30)]), rng.choice([1, 3, 7, 8, 1000, rand_coeff(rng, 20)]))
        return "SetRat %d %d %d" % (v(), f.numerator, f.denominator)
    if k == 18:
        return "NewDecimal %d %d %d" % (v(), rng.randint(-10**9, 10**9), rng.choice([0, 5, -5, rng.randint(-50, 50)]))
    if k == 19:
        return "SetMantExp %d %d %d" % (v(), v(), rng.choice([0, 1, -1, 30, -30, rng.randint(-40, 40)]))
    if k == 20:
        return "MantExp %d %s" % (v(), rng.choice(["-", str(v())]))
    if k == 21:
        n = rng.randint(0, 4)
        ws = [rng.choice([0, 1, B - 1, rng.randint(0, B - 1)]) for _ in range(n)]
        return "SetBitsExp %d %d %d %s" % (v(), rng.randint(-40, 40), n, " ".join(map(str, ws)))
    if k == 22:
        return "GobRoundTrip %d %d" % (v(), v())
    if k == 23:
        return rng.choice(["Cmp %d %d" % (v(), v()), "Sign %d" % v(), "IsInt %d" % v(), "MinPrec %d" % v()])
    if k == 24:
        return rng.choice(["Int64 %d" % v(), "Uint64 %d" % v(), "BitsExp %d" % v()])
    return "%s %d %d %d" % (rng.choice(["Add", "Sub", "Mul", "Quo"]), v(), v(), v())


def rand_program(rng, nvars=4, length=10, maxdigits=40):
    vs = []
    for _ in range(nvars):
        k = rng.randint(0, 9)
        if k == 0:
            vs.append(zero(rng.randint(0, 1), prec=rng.choice([0, 0, 3, 34]), mode=rng.randint(0, 5)))
        elif k == 1:
            vs.append(inf(rng.randint(0, 1), prec=rng.choice([0, 5]), mode=rng.randint(0, 5)))
        else:
            vs.append(rand_fin(rng, maxdigits, wide=False))
    ops = [rand_op(rng, nvars) for _ in range(length)]
    return vs, ops
