// Go side of the text-codec correspondence checks (C11, C12, C13): executes
// program lines against the real library (built from /repo with -tags verif)
// and prints observations in the same format as the extracted Coq model
// (build/trunner).  Strings travel as hex; reference answers of the standard
// library (strconv, fmt) are printed as comment tokens (#ref:...), which the
// diff ignores and the judges read.
package main

import (
	"bufio"
	"encoding/hex"
	"encoding/json"
	"fmt"
	"math"
	"math/big"
	"os"
	"strconv"
	"strings"

	"github.com/db47h/decimal"
)

type prog struct {
	pid  string
	vars []*decimal.Decimal
	ops  [][]string
}

func atoi(s string) int {
	n, err := strconv.ParseInt(s, 10, 64)
	if err != nil {
		panic("bad int " + s)
	}
	return int(n)
}

func atou(s string) uint64 {
	n, err := strconv.ParseUint(s, 10, 64)
	if err != nil {
		panic("bad uint " + s)
	}
	return n
}

func parseVar(t []string) *decimal.Decimal {
	var r decimal.VerifRaw
	r.Form = byte(atoi(t[0]))
	r.Neg = t[1] == "1"
	r.Exp = int32(atoi(t[2]))
	r.Prec = uint32(atou(t[3]))
	r.Mode = byte(atoi(t[4]))
	r.Acc = int8(atoi(t[5]))
	n := atoi(t[6])
	if n > 0 {
		r.Mant = make([]decimal.Word, n)
		for i := 0; i < n; i++ {
			r.Mant[i] = decimal.Word(atou(t[7+i]))
		}
	}
	extra, stale := 0, decimal.Word(0)
	if len(t) >= 9+n {
		extra = atoi(t[7+n])
		stale = decimal.Word(atou(t[8+n]))
	}
	d := new(decimal.Decimal)
	decimal.VerifSet(d, r, extra, stale)
	return d
}

func printDec(b *strings.Builder, d *decimal.Decimal) {
	r := decimal.VerifGet(d)
	neg := 0
	if r.Neg {
		neg = 1
	}
	fmt.Fprintf(b, " | %d %d %d %d %d", r.Form, neg, r.Prec, r.Mode, r.Acc)
	if r.Form == 1 {
		fmt.Fprintf(b, " %d %d", r.Exp, len(r.Mant))
		for _, w := range r.Mant {
			fmt.Fprintf(b, " %d", uint64(w))
		}
	}
}

func b2s(b bool) string {
	if b {
		return "1"
	}
	return "0"
}

func hx(b []byte) string { return "x:" + hex.EncodeToString(b) }

// unhex decodes a hex argument; "-" is the empty string.
func unhex(s string) []byte {
	if s == "-" {
		return nil
	}
	b, err := hex.DecodeString(s)
	if err != nil {
		panic("bad hex " + s)
	}
	return b
}

// fstate is a fmt.State with freely chosen flags.
type fstate struct {
	buf                      []byte
	plus, space, zero, minus bool
	wid, prec                int
}

func (s *fstate) Write(b []byte) (int, error) { s.buf = append(s.buf, b...); return len(b), nil }
func (s *fstate) Width() (int, bool)          { return s.wid, s.wid >= 0 }
func (s *fstate) Precision() (int, bool)      { return s.prec, s.prec >= 0 }
func (s *fstate) Flag(c int) bool {
	switch c {
	case '+':
		return s.plus
	case ' ':
		return s.space
	case '0':
		return s.zero
	case '-':
		return s.minus
	}
	return false
}

func fmtString(flags, width, prec int, verb byte) string {
	var sb strings.Builder
	sb.WriteByte('%')
	if flags&1 != 0 {
		sb.WriteByte('+')
	}
	if flags&2 != 0 {
		sb.WriteByte(' ')
	}
	if flags&4 != 0 {
		sb.WriteByte('0')
	}
	if flags&8 != 0 {
		sb.WriteByte('-')
	}
	if width >= 0 {
		sb.WriteString(strconv.Itoa(width))
	}
	if prec >= 0 {
		sb.WriteByte('.')
		sb.WriteString(strconv.Itoa(prec))
	}
	sb.WriteByte(verb)
	return sb.String()
}

func parseRes(d *decimal.Decimal, b int, err error) []string {
	if err != nil {
		return []string{"1", b2s(d == nil)}
	}
	return []string{"0", b2s(d == nil), strconv.Itoa(b)}
}

// execOp runs one operation; returns outcome and result tokens.
func execOp(p *prog, t []string) (outcome string, res []string) {
	outcome = "ok"
	defer func() {
		if e := recover(); e != nil {
			if _, ok := e.(decimal.ErrNaN); ok {
				outcome = "nan"
				res = nil
				return
			}
			outcome = "crash"
			res = []string{strings.ReplaceAll(fmt.Sprintf("#%v", e), " ", "_")}
		}
	}()
	v := func(s string) *decimal.Decimal { return p.vars[atoi(s)] }
	switch t[0] {
	case "Text":
		res = append(res, hx([]byte(v(t[1]).Text(byte(atoi(t[2])), atoi(t[3])))))
	case "Append":
		buf := unhex(t[4])
		res = append(res, hx(v(t[1]).Append(buf, byte(atoi(t[2])), atoi(t[3]))))
	case "Format":
		fl := atoi(t[2])
		s := &fstate{plus: fl&1 != 0, space: fl&2 != 0, zero: fl&4 != 0, minus: fl&8 != 0, wid: atoi(t[3]), prec: atoi(t[4])}
		v(t[1]).Format(s, rune(atoi(t[5])))
		res = append(res, hx(s.buf))
	case "Sprintf":
		f := fmtString(atoi(t[2]), atoi(t[3]), atoi(t[4]), byte(atoi(t[5])))
		res = append(res, hx([]byte(fmt.Sprintf(f, v(t[1])))))
		if len(t) > 6 {
			// reference: fmt's answer for the float64 with the given bits
			fl := math.Float64frombits(atou(t[6]))
			res = append(res, "#ref:"+hex.EncodeToString([]byte(fmt.Sprintf(f, fl))))
		}
	case "RefText":
		// Text v fmt prec, plus strconv's answer for the float64 with the given bits
		res = append(res, hx([]byte(v(t[1]).Text(byte(atoi(t[2])), atoi(t[3])))))
		fl := math.Float64frombits(atou(t[4]))
		res = append(res, "#ref:"+hex.EncodeToString([]byte(strconv.FormatFloat(fl, byte(atoi(t[2])), atoi(t[3]), 64))))
	case "MarshalText":
		b, err := v(t[1]).MarshalText()
		if err != nil {
			panic(err)
		}
		res = append(res, hx(b))
	case "MarshalJSON":
		b, err := json.Marshal(v(t[1]))
		if err != nil {
			panic(err)
		}
		res = append(res, hx(b))
	case "Parse":
		d, b, err := v(t[1]).Parse(string(unhex(t[2])), atoi(t[3]))
		res = parseRes(d, b, err)
	case "SetString":
		d, ok := v(t[1]).SetString(string(unhex(t[2])))
		if ok != (d != nil) {
			panic("SetString: ok flag and result disagree")
		}
		res = append(res, b2s(ok))
	case "UnmarshalText":
		err := v(t[1]).UnmarshalText(unhex(t[2]))
		res = append(res, b2s(err != nil))
	case "UnmarshalJSON":
		err := json.Unmarshal(unhex(t[2]), v(t[1]))
		res = append(res, b2s(err != nil))
	case "ParseDecimal":
		d, b, err := decimal.ParseDecimal(string(unhex(t[2])), atoi(t[3]), uint(atou(t[4])), decimal.RoundingMode(atoi(t[5])))
		res = parseRes(d, b, err)
		if d != nil {
			p.vars[atoi(t[1])] = d
		}
	case "Scan":
		r := strings.NewReader(string(unhex(t[2])))
		_, err := fmt.Fscan(r, v(t[1]))
		if err != nil {
			res = append(res, "1")
		} else {
			res = append(res, "0", strconv.Itoa(r.Len()))
		}
	case "RoundTrip":
		x := v(t[1])
		// format 0: MarshalText/UnmarshalText, 1: json.Marshal/json.Unmarshal, else Text/Parse
		f := atoi(t[2])
		var txt string
		switch f {
		case 0:
			b, err := x.MarshalText()
			if err != nil {
				panic(err)
			}
			txt = string(b)
		case 1:
			b, err := json.Marshal(x)
			if err != nil {
				panic(err)
			}
			txt = string(b)
		default:
			txt = x.Text(byte(f), -1)
		}
		mp := int(x.MinPrec())
		pr := mp
		if pr < 1 {
			pr = 1
		}
		z := new(decimal.Decimal).SetPrec(uint(pr + atoi(t[3]))).SetMode(decimal.RoundingMode(atoi(t[4])))
		var err error
		switch f {
		case 0:
			err = z.UnmarshalText([]byte(txt))
		case 1:
			err = json.Unmarshal([]byte(txt), z)
		default:
			_, _, err = z.Parse(txt, atoi(t[5]))
		}
		if err != nil {
			res = append(res, "1", hx([]byte(txt)))
		} else {
			res = append(res, "0", strconv.Itoa(x.Cmp(z)), b2s(x.Signbit() == z.Signbit()), strconv.Itoa(mp),
				strconv.Itoa(int(z.Acc())), hx([]byte(txt)))
		}
	case "BigParse":
		f, b, err := new(big.Float).Parse(string(unhex(t[1])), atoi(t[2]))
		if err != nil {
			res = append(res, "0")
		} else {
			_ = f
			res = append(res, "1", strconv.Itoa(b))
		}
	case "MinPrec":
		res = append(res, strconv.Itoa(int(v(t[1]).MinPrec())))
	default:
		panic("unknown op " + t[0])
	}
	return
}

func processLine(line string, w *bufio.Writer) {
	parts := strings.Split(line, ";")
	p := &prog{pid: strings.TrimSpace(parts[0])}
	for _, it := range parts[1:] {
		t := strings.Fields(it)
		if len(t) == 0 {
			continue
		}
		switch t[0] {
		case "V":
			p.vars = append(p.vars, parseVar(t[1:]))
		case "O":
			p.ops = append(p.ops, t[1:])
		default:
			panic("bad item " + it)
		}
	}
	var b strings.Builder
	for i, o := range p.ops {
		outcome, res := execOp(p, o)
		b.Reset()
		fmt.Fprintf(&b, "%s %d %s %s", p.pid, i, o[0], outcome)
		for _, r := range res {
			b.WriteByte(' ')
			b.WriteString(r)
		}
		for _, d := range p.vars {
			printDec(&b, d)
		}
		w.WriteString(b.String())
		w.WriteByte('\n')
		if outcome == "crash" {
			break
		}
	}
}

func main() {
	sc := bufio.NewScanner(os.Stdin)
	sc.Buffer(make([]byte, 1<<20), 1<<30)
	w := bufio.NewWriterSize(os.Stdout, 1<<20)
	defer w.Flush()
	for sc.Scan() {
		line := sc.Text()
		if len(line) == 0 || line[0] == '#' {
			continue
		}
		processLine(line, w)
	}
}
